import Mathlib.Algebra.Module.Basic
import Mathlib.Algebra.BigOperators.Group.List.Basic
import Mathlib.Tactic.Ring
import Mathlib.Tactic.Linarith
import Mathlib.Tactic.Abel
/-
Scalar-multiplication algorithms of the implementations, as hand models over any additive
commutative group, each proved to return `a • P`:
* plain MSB-first double-and-add (`edwards25519vartime` `Mul`, BN `curvePoint.Mul`, the Lean models);
* the signed radix-16 recoding of `geScalarMult` / `geScalarMultBase` (digits in [-8, 8]) followed by
  fixed-window evaluation;
* evaluation of any signed-digit radix-2 expansion (the sliding-window path `geScalarMultVartime`
  evaluates `slide a`, a signed-digit expansion with odd digits |r| ≤ 15).
Hence all multipliers agree (C18) and satisfy the scalar-action laws (C01).
-/
namespace Kyber.ScalarMult

variable {G : Type*} [AddCommGroup G]

/-! ### Double-and-add -/

/-- Value of a bit string, most significant bit first. -/
def ofBitsMSB (bits : List Bool) : Nat := bits.foldl (fun acc b => 2 * acc + (if b then 1 else 0)) 0

/-- MSB-first double-and-add. -/
def dblAdd (bits : List Bool) (P : G) : G :=
  bits.foldl (fun acc b => if b then acc + acc + P else acc + acc) 0

theorem dblAdd_spec_aux (bits : List Bool) (P : G) (n : Nat) :
    bits.foldl (fun acc b => if b then acc + acc + P else acc + acc) (n • P)
      = (bits.foldl (fun acc b => 2 * acc + (if b then 1 else 0)) n) • P := by
  induction bits generalizing n with
  | nil => rfl
  | cons b bs ih =>
    simp only [List.foldl_cons]
    cases b
    · have : n • P + n • P = (2 * n + 0) • P := by rw [add_zero, two_mul, add_smul]
      simp only [Bool.false_eq_true, if_false]
      rw [this]; exact ih _
    · have : n • P + n • P + P = (2 * n + 1) • P := by rw [add_smul, two_mul, add_smul, one_smul]
      simp only [if_true]
      rw [this]; exact ih _

/-- Double-and-add returns `a • P`. -/
theorem dblAdd_spec (bits : List Bool) (P : G) : dblAdd bits P = ofBitsMSB bits • P := by
  have := dblAdd_spec_aux bits P 0
  rw [zero_smul] at this
  exact this

/-! ### Signed-digit evaluation (any radix) -/

/-- Value of a little-endian signed-digit string in radix `r`. -/
def digitsVal (r : Int) : List Int → Int
  | [] => 0
  | e :: es => e + r * digitsVal r es

/-- Horner evaluation from the most significant digit: `h ← r•h + e•P`. -/
def windowEval (r : Int) : List Int → G → G
  | [], _ => 0
  | e :: es, P => r • windowEval r es P + e • P

/-- Fixed-window / sliding-window evaluation of a signed-digit expansion returns `value • P`. -/
theorem windowEval_spec (r : Int) (ds : List Int) (P : G) : windowEval r ds P = digitsVal r ds • P := by
  induction ds with
  | nil => simp [windowEval, digitsVal]
  | cons e es ih =>
    simp only [windowEval, digitsVal, ih]
    rw [add_smul, mul_smul, add_comm]

/-! ### The signed radix-16 recoding of `geScalarMult` -/

/-- The 64 nibbles of a scalar given as 32 little-endian bytes (`e[2i] = a[i] & 15`, `e[2i+1] = a[i] >> 4`):
    little-endian base-16 digits of `a`, `n` of them. -/
def nibbles : Nat → Nat → List Int
  | 0, _ => []
  | n + 1, a => ((a % 16 : Nat) : Int) :: nibbles n (a / 16)

/-- The carry pass as coded: `e[i] += carry; carry = (e[i] + 8) >> 4; e[i] -= carry << 4` for all but the
    last digit, which absorbs the final carry. -/
def recode : List Int → Int → List Int
  | [], _ => []
  | [e], c => [e + c]
  | e :: es, c =>
    let e' := e + c
    let c' := (e' + 8) / 16
    (e' - 16 * c') :: recode es c'

theorem nibbles_val (n a : Nat) : digitsVal 16 (nibbles n a) = ((a % 16 ^ n : Nat) : Int) := by
  induction n generalizing a with
  | zero => simp [nibbles, digitsVal, Nat.mod_one]
  | succ n ih =>
    simp only [nibbles, digitsVal, ih]
    have : a % 16 ^ (n + 1) = a % 16 + 16 * (a / 16 % 16 ^ n) := by
      rw [pow_succ, Nat.mul_comm (16 ^ n) 16, Nat.mod_mul]
    rw [this]; push_cast; ring

/-- The recoding preserves the value (plus the incoming carry). -/
theorem recode_val (es : List Int) (c : Int) (h : es ≠ []) :
    digitsVal 16 (recode es c) = digitsVal 16 es + c := by
  induction es generalizing c with
  | nil => exact absurd rfl h
  | cons e es ih =>
    cases es with
    | nil => simp [recode, digitsVal]
    | cons e2 es2 =>
      simp only [recode, digitsVal]
      have := ih ((e + c + 8) / 16) (by simp)
      simp only [digitsVal] at this
      rw [this]; ring

/-- Every recoded digit except the last lies in `[-8, 8)`, given nibble inputs and a carry in `{0,1}`. -/
theorem recode_range (es : List Int) (c : Int) (hc : 0 ≤ c ∧ c ≤ 1)
    (hes : ∀ e ∈ es, 0 ≤ e ∧ e ≤ 15) :
    ∀ d ∈ (recode es c).dropLast, -8 ≤ d ∧ d < 8 := by
  induction es generalizing c with
  | nil => simp [recode]
  | cons e es ih =>
    cases es with
    | nil => simp [recode]
    | cons e2 es2 =>
      intro d hd
      have he := hes e (by simp)
      simp only [recode] at hd
      have hne : recode (e2 :: es2) ((e + c + 8) / 16) ≠ [] := by
        cases es2 <;> simp [recode]
      rw [List.dropLast_cons_of_ne_nil hne] at hd
      rcases List.mem_cons.mp hd with h | h
      · subst h; omega
      · apply ih ((e + c + 8) / 16) (by omega) (fun x hx => hes x (by simp [hx])) d h

/-- `geScalarMult`'s digit string for a scalar `a < 2^255`: value `a`, so window evaluation yields `a • P`. -/
theorem recode_nibbles_spec (a : Nat) (ha : a < 16 ^ 64) (P : G) :
    windowEval 16 (recode (nibbles 64 a) 0) P = a • P := by
  rw [windowEval_spec, recode_val _ _ (by simp [nibbles]), nibbles_val, Nat.mod_eq_of_lt ha, add_zero]
  exact natCast_zsmul P a

end Kyber.ScalarMult
