import KyberModel.Lib.IRBasic
import KyberModel.Generated.Formulas
/-
Write-sets of the translated functions (regenerated from the source): every one of them writes exactly
ONE object — its result (receiver or output parameter) — plus its own temporaries; no operand is ever
written. Together with the generic frame rule this is the "operands intact" half of C05 and the
"operand positions are read-only" entry of the C20 effect table for the pure-Go group code.
-/
namespace Kyber.IR.Frame
open Kyber.IR Kyber.IR.Gen

/-- bases written by a program, temporaries excluded -/
def nonLocalWrites (p : List Instr) : List Nat :=
  ((writes p).map (·.base)).eraseDups.filter (fun b => !localBases.contains b)

set_option maxRecDepth 100000 in
/-- The extracted table is what the programs write. -/
theorem writeSets_sound : programs.map (fun np => (np.1, nonLocalWrites np.2)) = writeSets := by decide +kernel

/-- Each translated function writes a single object. -/
theorem single_destination : writeSets.all (fun e => e.2.length == 1) = true := by decide +kernel

/-- Generic frame rule by base: whatever lives at a base the program does not write is unchanged. -/
theorem run_frame_base {α : Type} (o : Ops α) (p : List Instr) (s : Loc → α) (l : Loc)
    (h : l.base ∉ (writes p).map (·.base)) : run o p s l = s l := by
  apply run_frame
  intro hl
  apply h
  exact List.mem_map.mpr ⟨l, hl, rfl⟩

/-- Instance: `completedGroupElement.Add(p, q)` leaves both operands exactly as they were. -/
theorem completed_Add_operands_intact {α : Type} (o : Ops α) (s : Loc → α) (f : Nat) :
    run o ge_completed_Add s ⟨B_p, f⟩ = s ⟨B_p, f⟩ ∧ run o ge_completed_Add s ⟨B_q, f⟩ = s ⟨B_q, f⟩ := by
  constructor
  · apply run_frame_base; show B_p ∉ (writes ge_completed_Add).map (·.base); decide +kernel
  · apply run_frame_base; show B_q ∉ (writes ge_completed_Add).map (·.base); decide +kernel

/-- Instance: BN `curvePoint.Add(a, b)` with a distinct receiver leaves `a` and `b` as they were. -/
theorem bn_Add_operands_intact {α : Type} (o : Ops α) (s : Loc → α) (f : Nat) :
    run o bn256_curve_Add s ⟨B_a, f⟩ = s ⟨B_a, f⟩ ∧ run o bn256_curve_Add s ⟨B_b, f⟩ = s ⟨B_b, f⟩ := by
  constructor
  · apply run_frame_base; show B_a ∉ (writes bn256_curve_Add).map (·.base); decide +kernel
  · apply run_frame_base; show B_b ∉ (writes bn256_curve_Add).map (·.base); decide +kernel

end Kyber.IR.Frame
