import Mathlib.Data.ZMod.Basic
import Mathlib.FieldTheory.Finite.Basic
import Mathlib.NumberTheory.LegendreSymbol.Basic
import Mathlib.Tactic.Ring
import Mathlib.Tactic.LinearCombination
/-
The quadratic extension `F_p[i]/(i² + 1)` as a field, for a prime `p ≡ 3 (mod 4)` (so that `-1` is not a
square): pairs `(re, im)` standing for `re + im·i`. This is the coordinate field of the BN256/BN254 twists.
-/
namespace Kyber

@[ext] structure QF (p : Nat) where
  re : ZMod p
  im : ZMod p
deriving DecidableEq

namespace QF
variable {p : Nat}

instance : Zero (QF p) := ⟨⟨0, 0⟩⟩
instance : One (QF p) := ⟨⟨1, 0⟩⟩
instance : Add (QF p) := ⟨fun a b => ⟨a.re + b.re, a.im + b.im⟩⟩
instance : Neg (QF p) := ⟨fun a => ⟨-a.re, -a.im⟩⟩
instance : Sub (QF p) := ⟨fun a b => ⟨a.re - b.re, a.im - b.im⟩⟩
instance : Mul (QF p) := ⟨fun a b => ⟨a.re * b.re - a.im * b.im, a.re * b.im + a.im * b.re⟩⟩

@[simp] theorem zero_re : (0 : QF p).re = 0 := rfl
@[simp] theorem zero_im : (0 : QF p).im = 0 := rfl
@[simp] theorem one_re : (1 : QF p).re = 1 := rfl
@[simp] theorem one_im : (1 : QF p).im = 0 := rfl
@[simp] theorem add_re (a b : QF p) : (a + b).re = a.re + b.re := rfl
@[simp] theorem add_im (a b : QF p) : (a + b).im = a.im + b.im := rfl
@[simp] theorem neg_re (a : QF p) : (-a).re = -a.re := rfl
@[simp] theorem neg_im (a : QF p) : (-a).im = -a.im := rfl
@[simp] theorem sub_re (a b : QF p) : (a - b).re = a.re - b.re := rfl
@[simp] theorem sub_im (a b : QF p) : (a - b).im = a.im - b.im := rfl
@[simp] theorem mul_re (a b : QF p) : (a * b).re = a.re * b.re - a.im * b.im := rfl
@[simp] theorem mul_im (a b : QF p) : (a * b).im = a.re * b.im + a.im * b.re := rfl

instance : CommRing (QF p) where
  add_assoc a b c := by ext <;> simp [add_assoc]
  zero_add a := by ext <;> simp
  add_zero a := by ext <;> simp
  add_comm a b := by ext <;> simp [add_comm]
  neg_add_cancel a := by ext <;> simp
  sub_eq_add_neg a b := by ext <;> simp [sub_eq_add_neg]
  mul_assoc a b c := by ext <;> simp <;> ring
  one_mul a := by ext <;> simp
  mul_one a := by ext <;> simp
  left_distrib a b c := by ext <;> simp <;> ring
  right_distrib a b c := by ext <;> simp <;> ring
  mul_comm a b := by ext <;> simp <;> ring
  zero_mul a := by ext <;> simp
  mul_zero a := by ext <;> simp
  nsmul := nsmulRec
  zsmul := zsmulRec

/-- norm `re² + im²` -/
def norm (a : QF p) : ZMod p := a.re * a.re + a.im * a.im

section field
variable [hp : Fact p.Prime] (h34 : p % 4 = 3)
include h34

/-- For `p ≡ 3 (mod 4)` the norm vanishes only at 0. -/
theorem norm_eq_zero_iff (a : QF p) : norm a = 0 ↔ a = 0 := by
  constructor
  · intro h
    by_contra hne
    have hsq : ¬ IsSquare (-1 : ZMod p) := by
      rw [ZMod.exists_sq_eq_neg_one_iff]; omega
    unfold norm at h
    by_cases him : a.im = 0
    · have hre : a.re = 0 := by
        rw [him] at h; simpa using h
      apply hne; ext <;> simp [hre, him]
    · apply hsq
      refine ⟨a.re / a.im, ?_⟩
      field_simp
      linear_combination -h
  · intro h; subst h; simp [norm]

end field

end QF

/-- The field structure, for `p` prime and `p ≡ 3 (mod 4)`. -/
noncomputable instance QF.field {p : Nat} [Fact p.Prime] [h34f : Fact (p % 4 = 3)] : Field (QF p) :=
  have h34 : p % 4 = 3 := h34f.out
  { (inferInstance : CommRing (QF p)) with
    inv := fun a => ⟨a.re / QF.norm a, -a.im / QF.norm a⟩
    exists_pair_ne := ⟨0, 1, by intro h; have := congrArg QF.re h; simp at this⟩
    mul_inv_cancel := by
      intro a ha
      have hn : QF.norm a ≠ 0 := fun h => ha ((QF.norm_eq_zero_iff h34 a).mp h)
      ext
      · simp only [QF.mul_re, QF.one_re]
        field_simp
        unfold QF.norm; ring
      · simp only [QF.mul_im, QF.one_im]
        field_simp
        ring
    inv_zero := by ext <;> simp [QF.norm]
    nnqsmul := _
    nnqsmul_def := fun _ _ => rfl
    qsmul := _
    qsmul_def := fun _ _ => rfl }

end Kyber
