import KyberModel.Groups.BlsG2
import KyberModel.Lib.TwistModel
import KyberModel.Lib.TwistCurves
import KyberModel.Lib.Decode
/-
BLS12-381 G2 decoder (`Groups/BlsG2.lean: decG2`): what an accepted string is. Whatever the square-root
routine does, its result is checked by squaring (`chkRoot`), so every accepted value lies on the twist, has
reduced coordinates and is killed by the group order `r`.

Proof style: the field modulus is a 381-bit literal; `cases`/`split_ifs` on equations that mention closed
terms over it make the elaborator or the kernel evaluate them, so hypotheses are taken apart with
`by_cases` + `if_pos/if_neg` and `Option.some.inj` only.
-/
namespace Kyber.BlsG2Dec
open Kyber Kyber.BLS12381 Kyber.Fp2 Kyber.TwistModel Kyber.TwistCurves

theorem p_pos : 0 < p := by norm_num [p]

theorem decG2_length (bs : Bytes) (h : bs.length ≠ 96) : decG2 bs = none := by
  cases bs with
  | nil => rfl
  | cons b rest =>
    have : rest.length ≠ 95 := by simpa using h
    unfold decG2
    dsimp only
    rw [if_pos this]

theorem sqrtP_lt (a y : Nat) (h : sqrtP a = some y) : y < p := by
  unfold sqrtP at h
  dsimp only at h
  by_cases h1 : powMod a ((p + 1) / 4) p * powMod a ((p + 1) / 4) p % p = a % p
  · rw [if_pos h1] at h
    have hy := Option.some.inj h
    rw [← hy]
    exact powMod_lt _ _ _ (by norm_num [p])
  · rw [if_neg h1] at h
    exact absurd h (by simp)

theorem chkRoot_some (a x y : Fp2.El) (h : chkRoot a x = some y) : x = y ∧ Fp2.mul p y y = a := by
  unfold chkRoot at h
  by_cases hc : Fp2.mul p x x = a
  · rw [if_pos hc] at h
    have := Option.some.inj h
    rw [← this]; exact ⟨rfl, hc⟩
  · rw [if_neg hc] at h
    exact absurd h (by simp)

theorem sqrtReal_sound (a y : Fp2.El) (h : sqrtReal a = some y) : Reduced p y ∧ Fp2.mul p y y = a := by
  unfold sqrtReal at h
  cases hs : sqrtP a.1 with
  | some s =>
    rw [hs] at h
    obtain ⟨hxy, hm⟩ := chkRoot_some _ _ _ h
    rw [← hxy] at hm ⊢
    exact ⟨⟨sqrtP_lt _ _ hs, p_pos⟩, hm⟩
  | none =>
    rw [hs] at h
    cases hs2 : sqrtP (negMod a.1 p) with
    | some s =>
      rw [hs2] at h
      obtain ⟨hxy, hm⟩ := chkRoot_some _ _ _ h
      rw [← hxy] at hm ⊢
      exact ⟨⟨p_pos, sqrtP_lt _ _ hs2⟩, hm⟩
    | none =>
      rw [hs2] at h
      exact absurd h (by simp)

theorem pickX0_lt (d1 d2 x0 : Nat) (h : pickX0 d1 d2 = some x0) : x0 < p := by
  unfold pickX0 at h
  cases hs : sqrtP d1 with
  | some s =>
    rw [hs] at h
    have := Option.some.inj h
    rw [← this]; exact sqrtP_lt _ _ hs
  | none =>
    rw [hs] at h
    exact sqrtP_lt _ _ h

theorem sqrtGenWith_sound (inv2 : Nat) (a y : Fp2.El) (h : sqrtGenWith inv2 a = some y) :
    Reduced p y ∧ Fp2.mul p y y = a := by
  unfold sqrtGenWith at h
  cases hs : sqrtP ((a.1 * a.1 + a.2 * a.2) % p) with
  | none =>
    rw [hs] at h
    exact absurd h (by simp)
  | some s =>
    rw [hs] at h
    dsimp only at h
    cases hx : pickX0 ((a.1 + s) % p * inv2 % p) (subMod a.1 s p * inv2 % p) with
    | none =>
      rw [hx] at h
      exact absurd h (by simp)
    | some x0 =>
      rw [hx] at h
      obtain ⟨hxy, hm⟩ := chkRoot_some _ _ _ h
      rw [← hxy] at hm ⊢
      exact ⟨⟨pickX0_lt _ _ _ hx, Nat.mod_lt _ p_pos⟩, hm⟩

theorem sqrtGen_sound (a y : Fp2.El) (h : sqrtGen a = some y) : Reduced p y ∧ Fp2.mul p y y = a :=
  sqrtGenWith_sound _ a y h

/-- A root returned by `sqrtFp2` is reduced and squares to the (reduced) argument. -/
theorem sqrtFp2_sound (a y : Fp2.El) (h : sqrtFp2 a = some y) :
    Reduced p y ∧ Fp2.mul p y y = Fp2.red p a := by
  unfold sqrtFp2 at h
  by_cases h0 : (Fp2.red p a).2 = 0
  · rw [if_pos h0] at h
    exact sqrtReal_sound _ _ h
  · rw [if_neg h0] at h
    exact sqrtGen_sound _ _ h

theorem twistB_reduced : Fp2.red twist.p twist.b = twist.b := by decide +kernel

/-- Squaring does not see the sign. -/
theorem mul_neg_neg (y : Fp2.El) : Fp2.mul p (Fp2.neg p y) (Fp2.neg p y) = Fp2.mul p y y := by
  apply castEl_injective (reduced_mul p_pos _ _) (reduced_mul p_pos _ _)
  simp only [cast_mul p_pos, cast_neg p_pos]
  ring

theorem selectRoot_sound (big : Bool) (y0 : Fp2.El) (hr : Reduced p y0) :
    Reduced p (selectRoot big y0) ∧ Fp2.mul p (selectRoot big y0) (selectRoot big y0) = Fp2.mul p y0 y0 := by
  unfold selectRoot
  by_cases hc : largerRoot y0 = big
  · rw [if_pos hc]; exact ⟨hr, rfl⟩
  · rw [if_neg hc]; exact ⟨reduced_neg p_pos _, mul_neg_neg _⟩

/-- Accepted affine decompressions are valid members. -/
theorem decG2Affine_valid (big : Bool) (xr xi : Nat) (P : Fp2.Pt) (h : decG2Affine big xr xi = some P) :
    Valid twist P ∧ Fp2.smul twist r P = none := by
  unfold decG2Affine at h
  by_cases h1 : p ≤ xi ∨ p ≤ xr
  · rw [if_pos h1] at h
    exact absurd h (by simp)
  · rw [if_neg h1] at h
    cases hs : sqrtFp2 (rhsG2 (xr, xi)) with
    | none =>
      rw [hs] at h
      exact absurd h (by simp)
    | some y0 =>
      rw [hs] at h
      dsimp only at h
      obtain ⟨hred, hsq⟩ := sqrtFp2_sound _ _ hs
      obtain ⟨hyr, hysq⟩ := selectRoot_sound big y0 hred
      by_cases h6 : Fp2.smul twist r (some ((xr, xi), selectRoot big y0)) = none
      · rw [if_pos h6] at h
        have hP := Option.some.inj h
        rw [← hP]
        refine ⟨⟨?_, hyr, ?_⟩, h6⟩
        · show xr < p ∧ xi < p
          omega
        · show (Fp2.mul twist.p _ _ == Fp2.add twist.p (Fp2.mul twist.p (Fp2.mul twist.p _ _) _) (Fp2.red twist.p twist.b)) = true
          rw [beq_iff_eq, twistB_reduced]
          show Fp2.mul p _ _ = _
          rw [hysq, hsq]
          unfold rhsG2
          rw [red_eq_of_reduced (reduced_add p_pos _ _)]
          rfl
      · rw [if_neg h6] at h
        exact absurd h (by simp)

/-- **Accepted ⇒ valid member**: reduced coordinates, on the twist, killed by the group order. -/
theorem decG2_valid (bs : Bytes) (P : Fp2.Pt) (h : decG2 bs = some P) :
    Valid twist P ∧ Fp2.smul twist r P = none := by
  cases bs with
  | nil => exact absurd h (by simp [decG2])
  | cons b0 rest =>
    unfold decG2 at h
    dsimp only at h
    by_cases h1 : rest.length ≠ 95
    · rw [if_pos h1] at h; exact absurd h (by simp)
    · rw [if_neg h1] at h
      by_cases h2 : b0.toNat / 128 = 0
      · rw [if_pos h2] at h; exact absurd h (by simp)
      · rw [if_neg h2] at h
        by_cases h3 : b0.toNat / 64 % 2 = 1
        · rw [if_pos h3] at h
          by_cases h4 : b0.toNat = 0xc0 ∧ rest.all (· == 0) = true
          · rw [if_pos h4] at h
            have := Option.some.inj h
            rw [← this]
            exact ⟨trivial, Kyber.DecodeLib.fp2_smul_none _ _⟩
          · rw [if_neg h4] at h; exact absurd h (by simp)
        · rw [if_neg h3] at h
          exact decG2Affine_valid _ _ _ _ h

/-- Non-vacuity: the standard compressed generator is accepted and decodes to the model's generator. -/
example : decG2 (encG2 g2Base) = some g2Base := TwistFacts.bls_base_roundtrip

end Kyber.BlsG2Dec
