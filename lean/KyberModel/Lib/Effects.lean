import KyberModel.Proto.Effects
import Mathlib.Tactic.Linarith
import Mathlib.Data.List.Basic
import Mathlib.Tactic.Ring
/-
Helper lemmas for `Props/C20.lean`: frame and agreement properties of one access, the invariant of an
interleaved run (every thread is somewhere on its own solo run and the memory agrees with that solo run on
the thread's locations), its preservation by a scheduling step, and the shape of the abstract calls.
-/
namespace Kyber.EffectsLib
open Kyber.Effects

/-- The remaining accesses of a solo run are a suffix of the program. -/
theorem solo_suffix (c : Call) (m : Mem) : ∀ k, ∃ pre, pre ++ (solo k m (start c)).2.rest = c.prog := by
  intro k
  induction k with
  | zero => exact ⟨[], rfl⟩
  | succ k ih =>
    obtain ⟨pre, hpre⟩ := ih
    simp only [solo]
    generalize solo k m (start c) = r at hpre ⊢
    obtain ⟨mk, tk⟩ := r
    simp only at hpre ⊢
    unfold stepAcc
    cases hr : tk.rest with
    | nil => simp only; exact ⟨pre, by rw [hr] at hpre; simpa [hr] using hpre⟩
    | cons a r =>
      rw [hr] at hpre
      cases a with
      | rd l => exact ⟨pre ++ [.rd l], by simpa using hpre⟩
      | wr l f => exact ⟨pre ++ [.wr l f], by simpa using hpre⟩

/-- `stepAcc` depends on the memory only at the location of the next access, and changes it only there. -/
theorem stepAcc_agree (m1 m2 : Mem) (t : Thread) (L : List Nat)
    (hsub : ∀ a ∈ t.rest, a.loc ∈ L) (hag : ∀ l ∈ L, m1 l = m2 l) :
    (stepAcc m1 t).2 = (stepAcc m2 t).2 ∧ ∀ l ∈ L, (stepAcc m1 t).1 l = (stepAcc m2 t).1 l := by
  unfold stepAcc
  cases hr : t.rest with
  | nil => exact ⟨rfl, hag⟩
  | cons a r =>
    have ha : a.loc ∈ L := hsub a (by rw [hr]; exact List.mem_cons_self ..)
    cases a with
    | rd l =>
      have : m1 l = m2 l := hag l ha
      exact ⟨by simp [this], hag⟩
    | wr l f =>
      simp only
      refine ⟨by first | rfl | trivial, ?_⟩
      intro x hx
      by_cases hxl : x = l
      · simp [hxl]
      · simp [hxl, hag x hx]

/-- A step of one thread leaves the memory unchanged outside the location it writes. -/
theorem stepAcc_frame (m : Mem) (t : Thread) (x : Nat)
    (hx : ∀ a ∈ t.rest, a.isWrite = true → a.loc ≠ x) : (stepAcc m t).1 x = m x := by
  unfold stepAcc
  cases hr : t.rest with
  | nil => rfl
  | cons a r =>
    cases a with
    | rd l => rfl
    | wr l f =>
      simp only
      have : l ≠ x := hx (.wr l f) (by rw [hr]; exact List.mem_cons_self ..) rfl
      simp [Ne.symm this]

theorem setNth_length {α : Type} (l : List α) (i : Nat) (v : α) : (setNth l i v).length = l.length := by
  induction l generalizing i with
  | nil => rfl
  | cons x xs ih => cases i <;> simp [setNth, ih]

theorem setNth_get_self {α : Type} (l : List α) (i : Nat) (v : α) (h : i < l.length) : (setNth l i v)[i]? = some v := by
  induction l generalizing i with
  | nil => simp at h
  | cons x xs ih =>
    cases i with
    | zero => simp [setNth]
    | succ i => simp only [setNth, List.getElem?_cons_succ]; exact ih i (by simpa using h)

theorem setNth_get_other {α : Type} (l : List α) (i j : Nat) (v : α) (h : i ≠ j) : (setNth l i v)[j]? = l[j]? := by
  induction l generalizing i j with
  | nil => rfl
  | cons x xs ih =>
    cases i with
    | zero =>
      cases j with
      | zero => exact absurd rfl h
      | succ j => simp [setNth]
    | succ i =>
      cases j with
      | zero => simp [setNth]
      | succ j => simp only [setNth, List.getElem?_cons_succ]; exact ih i j (by omega)

/-- The invariant of an interleaved run: every thread is somewhere on its own solo run, and the shared
    memory agrees with that solo run on all locations the thread ever accesses. -/
def Inv (cs : List Call) (m0 : Mem) (s : Mem × List Thread) : Prop :=
  s.2.length = cs.length ∧
  ∀ (i : Nat) (ci : Call), cs[i]? = some ci → ∃ k, s.2[i]? = some (solo k m0 (start ci)).2 ∧
    ∀ l ∈ ci.locs, s.1 l = (solo k m0 (start ci)).1 l

theorem inv_init (cs : List Call) (m0 : Mem) : Inv cs m0 (m0, cs.map start) := by
  refine ⟨by simp, ?_⟩
  intro i ci hi
  exact ⟨0, by simp [solo, List.getElem?_map, hi], fun _ _ => rfl⟩

theorem rest_locs (c : Call) (m : Mem) (k : Nat) : ∀ a ∈ (solo k m (start c)).2.rest, a.loc ∈ c.locs := by
  intro a ha
  obtain ⟨pre, hpre⟩ := solo_suffix c m k
  unfold Call.locs
  exact List.mem_map.mpr ⟨a, by rw [← hpre]; exact List.mem_append_right _ ha, rfl⟩

theorem rest_writes (c : Call) (m : Mem) (k : Nat) :
    ∀ a ∈ (solo k m (start c)).2.rest, a.isWrite = true → a.loc ∈ c.writes := by
  intro a ha hw
  obtain ⟨pre, hpre⟩ := solo_suffix c m k
  unfold Call.writes
  exact List.mem_map.mpr ⟨a, List.mem_filter.mpr ⟨by rw [← hpre]; exact List.mem_append_right _ ha, hw⟩, rfl⟩

theorem inv_step (cs : List Call) (m0 : Mem) (hf : WritesFresh cs) (s : Mem × List Thread) (j : Nat)
    (h : Inv cs m0 s) : Inv cs m0 (step s j) := by
  obtain ⟨hlen, hinv⟩ := h
  unfold step
  cases hj : s.2[j]? with
  | none => exact ⟨hlen, hinv⟩
  | some tj =>
    simp only
    have hjlt : j < s.2.length := by
      by_contra hc
      rw [List.getElem?_eq_none (by omega)] at hj; cases hj
    obtain ⟨cj, hcj⟩ : ∃ cj, cs[j]? = some cj := by
      have : j < cs.length := by omega
      exact ⟨cs[j], List.getElem?_eq_getElem this⟩
    obtain ⟨kj, htj, hagj⟩ := hinv j cj hcj
    have htj' : tj = (solo kj m0 (start cj)).2 := by rw [hj] at htj; exact Option.some.inj htj
    refine ⟨by simp [setNth_length, hlen], ?_⟩
    intro i ci hi
    by_cases hij : i = j
    · subst hij
      have hci : ci = cj := by rw [hcj] at hi; exact (Option.some.inj hi).symm
      subst hci
      refine ⟨kj + 1, ?_, ?_⟩
      · rw [setNth_get_self _ _ _ hjlt]
        have := (stepAcc_agree s.1 (solo kj m0 (start ci)).1 tj ci.locs
          (by rw [htj']; exact rest_locs ci m0 kj) hagj).1
        simp only [solo]
        rw [this, htj']
      · intro l hl
        have := (stepAcc_agree s.1 (solo kj m0 (start ci)).1 tj ci.locs
          (by rw [htj']; exact rest_locs ci m0 kj) hagj).2 l hl
        simp only [solo]
        rw [this, htj']
    · obtain ⟨ki, hti, hagi⟩ := hinv i ci hi
      refine ⟨ki, ?_, ?_⟩
      · rw [setNth_get_other _ _ _ _ (Ne.symm hij)]; exact hti
      · intro l hl
        have hfr : (stepAcc s.1 tj).1 l = s.1 l := by
          apply stepAcc_frame
          intro a ha hw hal
          have h1 : a.loc ∈ cj.writes := by rw [htj'] at ha; exact rest_writes cj m0 kj a ha hw
          exact hf j i cj ci hcj hi (Ne.symm hij) _ h1 (hal ▸ hl)
        rw [hfr]; exact hagi l hl

theorem inv_run (cs : List Call) (m0 : Mem) (hf : WritesFresh cs) (sched : List Nat) :
    ∀ s, Inv cs m0 s → Inv cs m0 (run s sched) := by
  induction sched with
  | nil => intro s h; exact h
  | cons j r ih => intro s h; exact ih _ (inv_step cs m0 hf s j h)

/-- A finished thread stays where it is. -/
theorem solo_done (c : Call) (m : Mem) (k : Nat) (h : (solo k m (start c)).2.rest = []) :
    ∀ d, solo (k + d) m (start c) = solo k m (start c) := by
  intro d
  induction d with
  | zero => rfl
  | succ d ih =>
    have : k + (d + 1) = (k + d) + 1 := by omega
    rw [this]
    simp only [solo]
    rw [ih]
    unfold stepAcc
    rw [h]

theorem solo_rest_length (c : Call) (m : Mem) (k : Nat) :
    (solo k m (start c)).2.rest.length = c.prog.length - k := by
  induction k with
  | zero => simp [solo, start]
  | succ k ih =>
    simp only [solo]
    generalize solo k m (start c) = r at ih ⊢
    obtain ⟨mk, tk⟩ := r
    simp only at ih ⊢
    unfold stepAcc
    cases hr : tk.rest with
    | nil =>
      rw [hr] at ih
      simp only [List.length_nil] at ih
      show tk.rest.length = _
      rw [hr]; simp only [List.length_nil]; omega
    | cons a r =>
      rw [hr] at ih
      simp only [List.length_cons] at ih
      cases a <;> (simp only []; omega)

/-- Abstract calls for a list of method classes sharing the operand locations `shared`: call `i` owns the
    fresh region `[B + i·N, B + i·N + N)`. -/
def instCalls (classes : List WClass) (shared : List Nat) (B N : Nat) : List Call :=
  (List.range classes.length).map fun i => abstractCall (classes.getD i .pure) shared (B + i * N) N

theorem abstractCall_safe_writes (c : WClass) (hc : c ≠ .sharedWrite) (shared : List Nat) (b n : Nat) :
    ∀ l ∈ (abstractCall c shared b n).writes, b ≤ l ∧ l < b + n := by
  intro l hl
  have hprog : (abstractCall c shared b n).prog =
      shared.map Acc.rd ++ (List.range n).map fun k => Acc.wr (b + k) (fun vs => vs.foldl (· + ·) k) := by
    cases c <;> first | rfl | exact absurd rfl hc
  unfold Call.writes at hl
  rw [hprog] at hl
  simp only [List.filter_append, List.map_append, List.mem_append, List.mem_map, List.mem_filter,
    List.mem_range] at hl
  rcases hl with ⟨a, ⟨⟨x, _, rfl⟩, hw⟩, _⟩ | ⟨a, ⟨⟨k, hk, rfl⟩, _⟩, rfl⟩
  · simp [Acc.isWrite] at hw
  · simp only [Acc.loc]; omega

theorem abstractCall_safe_locs (c : WClass) (hc : c ≠ .sharedWrite) (shared : List Nat) (b n : Nat) :
    ∀ l ∈ (abstractCall c shared b n).locs, l ∈ shared ∨ (b ≤ l ∧ l < b + n) := by
  intro l hl
  have hprog : (abstractCall c shared b n).prog =
      shared.map Acc.rd ++ (List.range n).map fun k => Acc.wr (b + k) (fun vs => vs.foldl (· + ·) k) := by
    cases c <;> first | rfl | exact absurd rfl hc
  unfold Call.locs at hl
  rw [hprog] at hl
  simp only [List.map_append, List.mem_append, List.mem_map, List.mem_range] at hl
  rcases hl with ⟨a, ⟨x, hx, rfl⟩, rfl⟩ | ⟨a, ⟨k, hk, rfl⟩, rfl⟩
  · left; simpa [Acc.loc] using hx
  · right; simp only [Acc.loc]; omega

end Kyber.EffectsLib
