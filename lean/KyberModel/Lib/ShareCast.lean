import KyberModel.Proto.Share
import KyberModel.Props.C02
import Mathlib.Algebra.Polynomial.Eval.Degree
import Mathlib.Algebra.Polynomial.Degree.Lemmas
import Mathlib.Data.Finset.Card
import Mathlib.Data.List.Nodup
import KyberModel.Lib.Lagrange
/-
Casts from the executable `Nat`-mod-`q` model of `share/poly.go` (Proto/Share.lean) to Mathlib
polynomials over `ZMod q`. Helper lemmas for Props/C07.lean (and C09–C13 which reuse the model).
-/
namespace Kyber.Share
open Polynomial Kyber.Scalar

variable {q : Nat}

/-- The Mathlib polynomial of a coefficient list (constant term first). -/
noncomputable def toPoly (q : Nat) : Poly → (ZMod q)[X]
  | [] => 0
  | c :: l => C (c : ZMod q) + X * toPoly q l

@[simp] theorem toPoly_nil : toPoly q [] = 0 := rfl
@[simp] theorem toPoly_cons (c : Nat) (l : Poly) : toPoly q (c :: l) = C (c : ZMod q) + X * toPoly q l := rfl

theorem toPoly_coeff (l : Poly) (i : Nat) : (toPoly q l).coeff i = ((l.getD i 0 : Nat) : ZMod q) := by
  induction l generalizing i with
  | nil => simp
  | cons c l ih =>
    cases i with
    | zero => simp
    | succ i => simp [ih]

theorem toPoly_degree_lt (l : Poly) : (toPoly q l).degree < l.length := by
  rw [degree_lt_iff_coeff_zero]
  intro m hm
  rw [toPoly_coeff]
  simp [List.getD_eq_getElem?_getD, List.getElem?_eq_none hm]

theorem toPoly_coeff_zero (l : Poly) : (toPoly q l).coeff 0 = ((l.headD 0 : Nat) : ZMod q) := by
  cases l <;> simp

/-- Two reduced coefficient lists of the same length with the same polynomial are equal. -/
theorem toPoly_injective {p r : Poly} (hlen : p.length = r.length) (hp : ∀ c ∈ p, c < q) (hr : ∀ c ∈ r, c < q)
    (h : toPoly q p = toPoly q r) : p = r := by
  apply List.ext_getElem hlen
  intro i h1 h2
  have hc := congrArg (fun f => f.coeff i) h
  simp only [toPoly_coeff] at hc
  simp only [List.getD_eq_getElem?_getD, List.getElem?_eq_getElem h1, List.getElem?_eq_getElem h2, Option.getD_some] at hc
  exact (eq_iff_cast_eq _ _ (hp _ (List.getElem_mem h1)) (hr _ (List.getElem_mem h2))).mpr hc

/-! ### Evaluation -/

theorem evalAt_cast (p : Poly) (x : Nat) : ((evalAt q p x : Nat) : ZMod q) = (toPoly q p).eval (x : ZMod q) := by
  induction p with
  | nil => simp [evalAt, zero]
  | cons c p ih =>
    have : evalAt q (c :: p) x = add q (mul q (evalAt q p x) x) c := rfl
    rw [this, add_cast, mul_cast, ih]
    simp; ring

theorem evalAt_lt (hq : 0 < q) (p : Poly) (x : Nat) : evalAt q p x < q := by
  cases p with
  | nil => simpa [evalAt, zero] using hq
  | cons c p => exact Nat.mod_lt _ hq

theorem pubEvalAt_eq_evalAt (p : Poly) (x : Nat) : pubEvalAt q p x = evalAt q p x := by
  induction p with
  | nil => rfl
  | cons c p ih =>
    have h1 : pubEvalAt q (c :: p) x = add q (mul q x (pubEvalAt q p x)) c := rfl
    have h2 : evalAt q (c :: p) x = add q (mul q (evalAt q p x) x) c := rfl
    rw [h1, h2, ih]; simp [mul, Nat.mul_comm]

theorem xEval_cast (i : Nat) : ((xEval q i : Nat) : ZMod q) = (i : ZMod q) + 1 := by
  simp [xEval, ZMod.natCast_mod, add_comm]

theorem xRec_eq_xEval {i : Nat} (hi : i + 1 < 2 ^ 32) : xRec q i = xEval q i := by
  have : u32 (i + 1) = i + 1 := Nat.mod_eq_of_lt (by simpa using hi)
  simp [xRec, xEval, this, Nat.add_comm]

theorem xRec_cast {i : Nat} (hi : i + 1 < 2 ^ 32) : ((xRec q i : Nat) : ZMod q) = (i : ZMod q) + 1 := by
  rw [xRec_eq_xEval hi, xEval_cast]

/-- The recovery abscissae of distinct admissible indices are distinct in `ZMod q`. -/
theorem xRec_cast_inj {i j : Nat} (hi : i + 1 < 2 ^ 32) (hj : j + 1 < 2 ^ 32) (hi' : i + 1 < q) (hj' : j + 1 < q)
    (h : ((xRec q i : Nat) : ZMod q) = ((xRec q j : Nat) : ZMod q)) : i = j := by
  rw [xRec_eq_xEval hi, xRec_eq_xEval hj] at h
  unfold xEval at h
  rw [ZMod.natCast_mod, ZMod.natCast_mod] at h
  have := (ZMod.natCast_eq_natCast_iff' _ _ _).mp h
  rw [Nat.mod_eq_of_lt (by omega), Nat.mod_eq_of_lt (by omega)] at this
  omega

/-! ### Polynomial operations -/

theorem toPoly_zipWith_add (p r : Poly) (h : p.length = r.length) :
    toPoly q (List.zipWith (add q) p r) = toPoly q p + toPoly q r := by
  induction p generalizing r with
  | nil => cases r <;> simp_all
  | cons a p ih =>
    cases r with
    | nil => simp at h
    | cons b r =>
      simp only [List.length_cons, Nat.add_right_cancel_iff] at h
      simp only [List.zipWith_cons_cons, toPoly_cons, ih r h, add_cast, C_add]
      ring

theorem toPoly_map_mul_right (p : Poly) (a : Nat) :
    toPoly q (p.map fun c => mul q c a) = C (a : ZMod q) * toPoly q p := by
  induction p with
  | nil => simp
  | cons c p ih => simp only [List.map_cons, toPoly_cons, ih, mul_cast, C_mul]; ring

theorem toPoly_commit (p : Poly) (b : Option Nat) :
    toPoly q (commit q p b) = C ((baseLog b : Nat) : ZMod q) * toPoly q p :=
  toPoly_map_mul_right p _

theorem toPoly_replicate_zero (n : Nat) : toPoly q (List.replicate n (zero q)) = 0 := by
  induction n with
  | zero => rfl
  | succ n ih => simp only [zero] at ih; simp [List.replicate_succ, ih, zero]

theorem mulRow_length (a : Nat) (acc : Poly) (k : Nat) (r : Poly) : (mulRow q a acc k r).length = acc.length := by
  induction acc generalizing k r with
  | nil => simp [mulRow]
  | cons c acc ih =>
    cases k with
    | zero => cases r with
      | nil => simp [mulRow]
      | cons rj r => simp [mulRow, ih]
    | succ k => simp [mulRow, ih]

theorem toPoly_mulRow (a : Nat) (acc : Poly) (k : Nat) (r : Poly) (h : k + r.length ≤ acc.length) :
    toPoly q (mulRow q a acc k r) = toPoly q acc + C (a : ZMod q) * X ^ k * toPoly q r := by
  induction acc generalizing k r with
  | nil =>
    have : r = [] := List.eq_nil_of_length_eq_zero (by simp only [List.length_nil] at h; omega)
    simp [mulRow, this]
  | cons c acc ih =>
    cases k with
    | zero =>
      cases r with
      | nil => simp [mulRow]
      | cons rj r =>
        have h' : 0 + r.length ≤ acc.length := by simp at h ⊢; omega
        simp only [mulRow, toPoly_cons, ih 0 r h', add_cast, mul_cast, C_add, C_mul]
        ring
    | succ k =>
      have h' : k + r.length ≤ acc.length := by simp at h ⊢; omega
      simp only [mulRow, toPoly_cons, ih k r h']
      ring

theorem mulRows_length (r p : Poly) (i : Nat) (acc : Poly) : (mulRows q r p i acc).length = acc.length := by
  induction p generalizing i acc with
  | nil => rfl
  | cons a p ih => simp [mulRows, ih, mulRow_length]

theorem toPoly_mulRows (r p : Poly) (i : Nat) (acc : Poly) (h : i + p.length + r.length ≤ acc.length + 1) :
    toPoly q (mulRows q r p i acc) = toPoly q acc + X ^ i * toPoly q p * toPoly q r := by
  induction p generalizing i acc with
  | nil => simp [mulRows]
  | cons a p ih =>
    simp only [List.length_cons] at h
    rw [mulRows, ih (i + 1) _ (by rw [mulRow_length]; omega), toPoly_mulRow a acc i r (by omega), toPoly_cons]
    ring

theorem polyMul_length (p r : Poly) : (polyMul q p r).length = p.length + r.length - 1 := by
  simp [polyMul, mulRows_length]

/-- `PriPoly.Mul` is polynomial multiplication (for a non-empty first or second factor). -/
theorem toPoly_polyMul (p r : Poly) (h : 0 < p.length + r.length) :
    toPoly q (polyMul q p r) = toPoly q p * toPoly q r := by
  rw [polyMul, toPoly_mulRows _ _ _ _ (by simp; omega), toPoly_replicate_zero]
  simp

theorem toPoly_minusConst (c : Nat) (hq : 0 < q) : toPoly q (minusConst q c) = X - C (c : ZMod q) := by
  simp only [minusConst, toPoly_cons, toPoly_nil, neg_cast hq, one_cast]
  simp; ring

/-! ### The map built by `xyScalar` / `xyCommit` -/

/-- Keys of an association list. -/
def keys (m : List (Nat × Nat)) : List Nat := m.map Prod.fst

theorem keys_length (m : List (Nat × Nat)) : (keys m).length = m.length := by simp [keys]

theorem mapSet_mem {m : List (Nat × Nat)} {k v : Nat} {e : Nat × Nat} (h : e ∈ mapSet m k v) :
    e = (k, v) ∨ e ∈ m := by
  induction m with
  | nil => simp [mapSet] at h; exact Or.inl h
  | cons a m ih =>
    obtain ⟨k', v'⟩ := a
    unfold mapSet at h
    split at h
    · rcases List.mem_cons.mp h with h | h
      · exact Or.inl h
      · exact Or.inr (List.mem_cons_of_mem _ h)
    · rcases List.mem_cons.mp h with h | h
      · exact Or.inr (h ▸ List.mem_cons_self)
      · rcases ih h with h | h
        · exact Or.inl h
        · exact Or.inr (List.mem_cons_of_mem _ h)

theorem mapSet_keys_of_mem {m : List (Nat × Nat)} {k : Nat} (v : Nat) (h : k ∈ keys m) :
    keys (mapSet m k v) = keys m := by
  induction m with
  | nil => simp [keys] at h
  | cons a m ih =>
    obtain ⟨k', v'⟩ := a
    unfold mapSet
    split
    · next hk => simp [keys, hk]
    · next hk =>
      have : k ∈ keys m := by
        simp only [keys, List.map_cons, List.mem_cons] at h
        rcases h with h | h
        · exact absurd h.symm hk
        · exact h
      simp only [keys, List.map_cons] at ih ⊢
      rw [ih this]

theorem mapSet_keys_of_not_mem {m : List (Nat × Nat)} {k : Nat} (v : Nat) (h : k ∉ keys m) :
    keys (mapSet m k v) = keys m ++ [k] := by
  induction m with
  | nil => simp [keys, mapSet]
  | cons a m ih =>
    obtain ⟨k', v'⟩ := a
    simp only [keys, List.map_cons, List.mem_cons, not_or] at h
    unfold mapSet
    split
    · next hk => exact absurd hk.symm h.1
    · next hk =>
      simp only [keys, List.map_cons, List.cons_append] at ih ⊢
      rw [ih h.2]

theorem mapSet_key_mem (m : List (Nat × Nat)) (k v : Nat) : k ∈ keys (mapSet m k v) := by
  by_cases h : k ∈ keys m
  · rw [mapSet_keys_of_mem v h]; exact h
  · rw [mapSet_keys_of_not_mem v h]; simp

theorem mapSet_keys_mono {m : List (Nat × Nat)} (k v : Nat) {k' : Nat} (h' : k' ∈ keys m) :
    k' ∈ keys (mapSet m k v) := by
  by_cases h : k ∈ keys m
  · rw [mapSet_keys_of_mem v h]; exact h'
  · rw [mapSet_keys_of_not_mem v h]; exact List.mem_append_left _ h'

theorem mapSet_nodup {m : List (Nat × Nat)} (k v : Nat) (h : (keys m).Nodup) : (keys (mapSet m k v)).Nodup := by
  by_cases hk : k ∈ keys m
  · rw [mapSet_keys_of_mem v hk]; exact h
  · rw [mapSet_keys_of_not_mem v hk]
    exact List.nodup_append.mpr ⟨h, List.nodup_singleton k, by
      intro a ha b hb; simp at hb; subst hb; exact fun e => hk (e ▸ ha)⟩

theorem mapSet_length_le (m : List (Nat × Nat)) (k v : Nat) : (mapSet m k v).length ≤ m.length + 1 := by
  rw [← keys_length, ← keys_length m]
  by_cases hk : k ∈ keys m
  · rw [mapSet_keys_of_mem v hk]; omega
  · rw [mapSet_keys_of_not_mem v hk]; simp

theorem walk_nodup (t : Nat) (l : List Share) {m : List (Nat × Nat)} (h : (keys m).Nodup) :
    (keys (walk t l m)).Nodup := by
  induction l generalizing m with
  | nil => exact h
  | cons s l ih =>
    unfold walk
    split
    · exact ih h
    · next v hv =>
      simp only
      split
      · exact mapSet_nodup _ _ h
      · exact ih (mapSet_nodup _ _ h)

theorem walk_mem (t : Nat) (l : List Share) {m : List (Nat × Nat)} {e : Nat × Nat} (h : e ∈ walk t l m) :
    e ∈ m ∨ ∃ s ∈ l, s.I = e.1 ∧ s.V = some e.2 := by
  induction l generalizing m with
  | nil => exact Or.inl h
  | cons s l ih =>
    unfold walk at h
    split at h
    · rcases ih h with h | ⟨s', hs', h⟩
      · exact Or.inl h
      · exact Or.inr ⟨s', List.mem_cons_of_mem _ hs', h⟩
    · next v hv =>
      simp only at h
      have key : e ∈ mapSet m s.I v → e ∈ m ∨ ∃ s' ∈ s :: l, s'.I = e.1 ∧ s'.V = some e.2 := by
        intro h
        rcases mapSet_mem h with h | h
        · exact Or.inr ⟨s, List.mem_cons_self, by simp [h], by simp [h, hv]⟩
        · exact Or.inl h
      split at h
      · exact key h
      · rcases ih h with h | ⟨s', hs', h⟩
        · exact key h
        · exact Or.inr ⟨s', List.mem_cons_of_mem _ hs', h⟩

theorem walk_keys_mono (t : Nat) (l : List Share) {m : List (Nat × Nat)} {k : Nat} (h : k ∈ keys m) :
    k ∈ keys (walk t l m) := by
  induction l generalizing m with
  | nil => exact h
  | cons s l ih =>
    unfold walk
    split
    · exact ih h
    · simp only
      split
      · exact mapSet_keys_mono _ _ h
      · exact ih (mapSet_keys_mono _ _ h)

/-- The walk either stops with exactly `t` entries or has consumed every usable share. -/
theorem walk_length (t : Nat) (l : List Share) {m : List (Nat × Nat)} (hm : m.length < t) :
    (walk t l m).length = t ∨
      ((walk t l m).length < t ∧ ∀ s ∈ l, ∀ v, s.V = some v → s.I ∈ keys (walk t l m)) := by
  induction l generalizing m with
  | nil => exact Or.inr ⟨hm, by simp⟩
  | cons s l ih =>
    unfold walk
    split
    · next hv =>
      rcases ih hm with h | ⟨h1, h2⟩
      · exact Or.inl h
      · refine Or.inr ⟨h1, ?_⟩
        intro s' hs' v' hv'
        rcases List.mem_cons.mp hs' with rfl | hs'
        · rw [hv] at hv'; cases hv'
        · exact h2 s' hs' v' hv'
    · next v hv =>
      simp only
      split
      · next hlen => exact Or.inl hlen
      · next hlen =>
        have hlt : (mapSet m s.I v).length < t := by
          have := mapSet_length_le m s.I v
          omega
        rcases ih hlt with h | ⟨h1, h2⟩
        · exact Or.inl h
        · refine Or.inr ⟨h1, ?_⟩
          intro s' hs' v' hv'
          rcases List.mem_cons.mp hs' with rfl | hs'
          · exact walk_keys_mono _ _ (mapSet_key_mem _ _ _)
          · exact h2 s' hs' v' hv'

theorem mem_sortByIndex {l : List Share} {s : Share} : s ∈ sortByIndex l ↔ s ∈ l :=
  (List.mergeSort_perm l _).mem_iff

theorem mem_dropNil {l : List (Option Share)} {s : Share} : s ∈ dropNil l ↔ some s ∈ l := by
  simp [dropNil]

theorem mem_validIdx {l : List (Option Share)} {k : Nat} :
    k ∈ validIdx l ↔ ∃ s, some s ∈ l ∧ s.I = k ∧ s.V ≠ none := by
  simp only [validIdx, List.mem_filterMap, mem_dropNil, Option.map_eq_some_iff]
  constructor
  · rintro ⟨s, hs, v, hv, rfl⟩
    exact ⟨s, hs, rfl, by simp [hv]⟩
  · rintro ⟨s, hs, rfl, hv⟩
    obtain ⟨v, hv⟩ := Option.ne_none_iff_exists'.mp hv
    exact ⟨s, hs, v, hv, rfl⟩

theorem xy_nodup (l : List (Option Share)) (t : Nat) : (keys (xy l t)).Nodup :=
  walk_nodup _ _ (by simp [keys])

theorem xy_mem {l : List (Option Share)} {t : Nat} {e : Nat × Nat} (h : e ∈ xy l t) :
    ∃ s, some s ∈ l ∧ s.I = e.1 ∧ s.V = some e.2 := by
  rcases walk_mem _ _ h with h | ⟨s, hs, h⟩
  · simp at h
  · exact ⟨s, mem_dropNil.mp (mem_sortByIndex.mp hs), h⟩

theorem xy_keys_subset (l : List (Option Share)) (t : Nat) : (keys (xy l t)).toFinset ⊆ (validIdx l).toFinset := by
  intro k hk
  simp only [List.mem_toFinset, keys, List.mem_map] at hk
  obtain ⟨e, he, rfl⟩ := hk
  obtain ⟨s, hs, h1, h2⟩ := xy_mem he
  exact List.mem_toFinset.mpr (mem_validIdx.mpr ⟨s, hs, h1, by simp [h2]⟩)

theorem xy_length_le_card (l : List (Option Share)) (t : Nat) : (xy l t).length ≤ (validIdx l).toFinset.card := by
  rw [← keys_length, ← List.toFinset_card_of_nodup (xy_nodup l t)]
  exact Finset.card_le_card (xy_keys_subset l t)

/-- Fewer than `t` distinct usable indices: the map stays short. -/
theorem xy_length_lt {l : List (Option Share)} {t : Nat} (h : (validIdx l).toFinset.card < t) :
    (xy l t).length < t := lt_of_le_of_lt (xy_length_le_card l t) h

/-- At least `t ≥ 1` distinct usable indices: the map has exactly `t` entries. -/
theorem xy_length_eq {l : List (Option Share)} {t : Nat} (ht : 1 ≤ t) (h : t ≤ (validIdx l).toFinset.card) :
    (xy l t).length = t := by
  rcases walk_length t (sortByIndex (dropNil l)) (m := []) (by simp only [List.length_nil]; omega) with h1 | ⟨h1, h2⟩
  · exact h1
  · exfalso
    have hsub : (validIdx l).toFinset ⊆ (keys (xy l t)).toFinset := by
      intro k hk
      obtain ⟨s, hs, rfl, hv⟩ := mem_validIdx.mp (List.mem_toFinset.mp hk)
      obtain ⟨v, hv⟩ := Option.ne_none_iff_exists'.mp hv
      exact List.mem_toFinset.mpr (h2 s (mem_sortByIndex.mpr (mem_dropNil.mpr hs)) v hv)
    have := Finset.card_le_card hsub
    rw [List.toFinset_card_of_nodup (xy_nodup l t), keys_length] at this
    have h1' : (xy l t).length < t := h1
    omega

theorem xy_length_le {l : List (Option Share)} {t : Nat} (ht : 1 ≤ t) : (xy l t).length ≤ t := by
  rcases walk_length t (sortByIndex (dropNil l)) (m := []) (by simp only [List.length_nil]; omega) with h1 | ⟨h1, _⟩
  · exact le_of_eq h1
  · exact le_of_lt h1

/-! ### The recovery loops in `ZMod q` -/

/-- Recovery abscissa of key `k` in `ZMod q`. -/
noncomputable def vq (q k : Nat) : ZMod q := ((xRec q k : Nat) : ZMod q)

theorem foldl_add_cast (m : List (Nat × Nat)) (g : Nat × Nat → Nat) (a : Nat) :
    ((m.foldl (fun acc e => add q acc (g e)) a : Nat) : ZMod q)
      = (a : ZMod q) + (m.map fun e => ((g e : Nat) : ZMod q)).sum := by
  induction m generalizing a with
  | nil => simp
  | cons e m ih => rw [List.foldl_cons, ih, add_cast]; simp [add_assoc]

theorem numDen_fold_cast (hq : 0 < q) (m : List (Nat × Nat)) (i : Nat) (nd : Nat × Nat) :
    let r := m.foldl (fun nd e => if i = e.1 then nd
      else (mul q nd.1 (xRec q e.1), mul q nd.2 (sub q (xRec q e.1) (xRec q i)))) nd
    ((r.1 : Nat) : ZMod q) = (nd.1 : ZMod q) * (((keys m).filter fun j => decide (j ≠ i)).map (vq q)).prod ∧
    ((r.2 : Nat) : ZMod q) = (nd.2 : ZMod q) * (((keys m).filter fun j => decide (j ≠ i)).map fun j => vq q j - vq q i).prod := by
  induction m generalizing nd with
  | nil => simp [keys]
  | cons e m ih =>
    simp only [List.foldl_cons]
    by_cases h : i = e.1
    · have h' : ¬ (e.1 ≠ i) := fun c => c h.symm
      have := ih nd
      simp only [keys, List.map_cons] at this ⊢
      rw [if_pos h]
      simpa [List.filter_cons, h'] using this
    · have h' : e.1 ≠ i := fun c => h c.symm
      have := ih (mul q nd.1 (xRec q e.1), mul q nd.2 (sub q (xRec q e.1) (xRec q i)))
      simp only [keys, List.map_cons] at this ⊢
      rw [if_neg h]
      simp only [List.filter_cons, h', ne_eq, not_false_eq_true, decide_true, if_true, List.map_cons, List.prod_cons]
      simp only [mul_cast, sub_cast hq] at this
      constructor
      · rw [this.1]; simp only [vq, ne_eq]; ring
      · rw [this.2]; simp only [vq, ne_eq]; ring

theorem numDen_cast (hq : 0 < q) (m : List (Nat × Nat)) (i n0 : Nat) :
    (((numDen q m i n0).1 : Nat) : ZMod q) = (n0 : ZMod q) * (((keys m).filter fun j => decide (j ≠ i)).map (vq q)).prod ∧
    (((numDen q m i n0).2 : Nat) : ZMod q) = (((keys m).filter fun j => decide (j ≠ i)).map fun j => vq q j - vq q i).prod := by
  have := numDen_fold_cast hq m i (n0, one q)
  simp only [one_cast, one_mul] at this
  exact this

theorem secretTerm_cast [Fact q.Prime] (hq2 : 2 < q) (m : List (Nat × Nat)) (e : Nat × Nat) :
    ((secretTerm q m e : Nat) : ZMod q) = (e.2 : ZMod q) *
      ((((keys m).filter fun j => decide (j ≠ e.1)).map (vq q)).prod /
        (((keys m).filter fun j => decide (j ≠ e.1)).map fun j => vq q j - vq q e.1).prod) := by
  have h := numDen_cast (by omega : 0 < q) m e.1 e.2
  simp only [secretTerm, div_cast hq2, h.1, h.2]
  ring

theorem commitTerm_cast [Fact q.Prime] (hq2 : 2 < q) (m : List (Nat × Nat)) (e : Nat × Nat) :
    ((commitTerm q m e : Nat) : ZMod q) = (e.2 : ZMod q) *
      ((((keys m).filter fun j => decide (j ≠ e.1)).map (vq q)).prod /
        (((keys m).filter fun j => decide (j ≠ e.1)).map fun j => vq q j - vq q e.1).prod) := by
  have h := numDen_cast (by omega : 0 < q) m e.1 (one q)
  simp only [commitTerm, mul_cast, div_cast hq2, h.1, h.2, one_cast]
  ring

/-- Sum over a consistent map of `y_i · λ_i` is the value at `0`. -/
theorem lagrange_sum_map [Fact q.Prime] (m : List (Nat × Nat)) (f : (ZMod q)[X])
    (hnd : (keys m).Nodup) (hinj : ∀ a ∈ keys m, ∀ b ∈ keys m, vq q a = vq q b → a = b)
    (hcons : ∀ e ∈ m, ((e.2 : Nat) : ZMod q) = f.eval (vq q e.1)) (hdeg : f.degree < m.length) :
    (m.map fun e => ((e.2 : Nat) : ZMod q) *
      ((((keys m).filter fun j => decide (j ≠ e.1)).map (vq q)).prod /
        (((keys m).filter fun j => decide (j ≠ e.1)).map fun j => vq q j - vq q e.1).prod)).sum = f.eval 0 := by
  rw [Kyber.Lagrange.list_eval_zero_eq_sum (keys m) hnd (vq q) hinj f (by rw [keys_length]; exact hdeg)]
  simp only [keys, List.map_map]
  apply congrArg
  apply List.map_congr_left
  intro e he
  simp only [Function.comp, hcons e he]

theorem secretSum_cast [Fact q.Prime] (hq2 : 2 < q) (m : List (Nat × Nat)) (f : (ZMod q)[X])
    (hnd : (keys m).Nodup) (hinj : ∀ a ∈ keys m, ∀ b ∈ keys m, vq q a = vq q b → a = b)
    (hcons : ∀ e ∈ m, ((e.2 : Nat) : ZMod q) = f.eval (vq q e.1)) (hdeg : f.degree < m.length) :
    ((m.foldl (fun acc e => add q acc (secretTerm q m e)) (zero q) : Nat) : ZMod q) = f.eval 0 := by
  rw [foldl_add_cast, zero_cast, zero_add, ← lagrange_sum_map m f hnd hinj hcons hdeg]
  apply congrArg
  apply List.map_congr_left
  intro e _
  exact secretTerm_cast hq2 m e

theorem commitSum_cast [Fact q.Prime] (hq2 : 2 < q) (m : List (Nat × Nat)) (f : (ZMod q)[X])
    (hnd : (keys m).Nodup) (hinj : ∀ a ∈ keys m, ∀ b ∈ keys m, vq q a = vq q b → a = b)
    (hcons : ∀ e ∈ m, ((e.2 : Nat) : ZMod q) = f.eval (vq q e.1)) (hdeg : f.degree < m.length) :
    ((m.foldl (fun acc e => add q acc (commitTerm q m e)) 0 : Nat) : ZMod q) = f.eval 0 := by
  rw [foldl_add_cast, Nat.cast_zero, zero_add, ← lagrange_sum_map m f hnd hinj hcons hdeg]
  apply congrArg
  apply List.map_congr_left
  intro e _
  exact commitTerm_cast hq2 m e

theorem foldl_add_lt (hq : 0 < q) (m : List (Nat × Nat)) (g : Nat × Nat → Nat) (a : Nat) (ha : a < q) :
    m.foldl (fun acc e => add q acc (g e)) a < q := by
  induction m generalizing a with
  | nil => exact ha
  | cons e m ih => exact ih _ (Nat.mod_lt _ hq)

/-! ### `lagrangeBasis` and whole-polynomial recovery -/

theorem basisLoop_fold (hq : 0 < q) (hq2' : ∀ a : Nat, ((inv q a : Nat) : ZMod q) = (a : ZMod q)⁻¹)
    (m : List (Nat × Nat)) (i : Nat) (ba : Poly × Nat) (hba : 0 < ba.1.length) :
    let r := m.foldl (fun ba e => if i = e.1 then ba
      else (polyMul q ba.1 (minusConst q (xRec q e.1)),
            mul q ba.2 (inv q (sub q (xRec q i) (xRec q e.1))))) ba
    toPoly q r.1 = toPoly q ba.1 * (((keys m).filter fun j => decide (j ≠ i)).map fun j => X - C (vq q j)).prod ∧
    ((r.2 : Nat) : ZMod q) = (ba.2 : ZMod q) * (((keys m).filter fun j => decide (j ≠ i)).map fun j => (vq q i - vq q j)⁻¹).prod ∧
    r.1.length = ba.1.length + ((keys m).filter fun j => decide (j ≠ i)).length := by
  induction m generalizing ba with
  | nil => simp [keys]
  | cons e m ih =>
    simp only [List.foldl_cons]
    by_cases h : i = e.1
    · have h' : ¬ (e.1 ≠ i) := fun c => c h.symm
      have := ih ba hba
      simp only [keys, List.map_cons] at this ⊢
      rw [if_pos h]
      simpa [List.filter_cons, h'] using this
    · have h' : e.1 ≠ i := fun c => h c.symm
      have hlen : (polyMul q ba.1 (minusConst q (xRec q e.1))).length = ba.1.length + 1 := by
        rw [polyMul_length]; simp [minusConst]
      have := ih (polyMul q ba.1 (minusConst q (xRec q e.1)),
            mul q ba.2 (inv q (sub q (xRec q i) (xRec q e.1)))) (by rw [hlen]; omega)
      simp only [keys, List.map_cons] at this ⊢
      rw [if_neg h]
      simp only [List.filter_cons, h', ne_eq, not_false_eq_true, decide_true, if_true, List.map_cons,
        List.prod_cons, List.length_cons]
      simp only [mul_cast, hq2', sub_cast hq, toPoly_polyMul _ _ (by omega : 0 < ba.1.length + (minusConst q (xRec q e.1)).length),
        toPoly_minusConst _ hq, hlen] at this
      refine ⟨?_, ?_, ?_⟩
      · rw [this.1]; simp only [vq, ne_eq]; ring
      · rw [this.2.1]; simp only [vq, ne_eq]; ring
      · rw [this.2.2]; simp only [ne_eq]; omega

theorem toPoly_lagrangeBasis [Fact q.Prime] (hq2 : 2 < q) (m : List (Nat × Nat)) (i : Nat) :
    toPoly q (lagrangeBasis q i m) =
      C (((keys m).filter fun j => decide (j ≠ i)).map fun j => (vq q i - vq q j)⁻¹).prod *
        (((keys m).filter fun j => decide (j ≠ i)).map fun j => X - C (vq q j)).prod := by
  have h := basisLoop_fold (by omega : 0 < q) (inv_cast hq2) m i ([one q], one q) (by simp)
  simp only [lagrangeBasis, basisLoop, toPoly_map_mul_right]
  rw [h.1, h.2.1]
  simp [one_cast]

theorem basisLoop_length (m : List (Nat × Nat)) (i : Nat) (ba : Poly × Nat) (hba : 0 < ba.1.length) :
    (m.foldl (fun ba e => if i = e.1 then ba
      else (polyMul q ba.1 (minusConst q (xRec q e.1)),
            mul q ba.2 (inv q (sub q (xRec q i) (xRec q e.1))))) ba).1.length
      = ba.1.length + ((keys m).filter fun j => decide (j ≠ i)).length := by
  induction m generalizing ba with
  | nil => simp [keys]
  | cons e m ih =>
    simp only [List.foldl_cons]
    by_cases h : i = e.1
    · have h' : ¬ (e.1 ≠ i) := fun c => c h.symm
      have := ih ba hba
      simp only [keys, List.map_cons] at this ⊢
      rw [if_pos h]
      simpa [List.filter_cons, h'] using this
    · have h' : e.1 ≠ i := fun c => h c.symm
      have hlen : (polyMul q ba.1 (minusConst q (xRec q e.1))).length = ba.1.length + 1 := by
        rw [polyMul_length]; simp [minusConst]
      have := ih (polyMul q ba.1 (minusConst q (xRec q e.1)),
            mul q ba.2 (inv q (sub q (xRec q i) (xRec q e.1)))) (by rw [hlen]; omega)
      simp only [keys, List.map_cons] at this ⊢
      rw [if_neg h, this, hlen]
      simp only [List.filter_cons, h', ne_eq, not_false_eq_true, decide_true, if_true, List.length_cons]
      omega

theorem filter_ne_length {ks : List Nat} (hnd : ks.Nodup) {i : Nat} (hi : i ∈ ks) :
    (ks.filter fun j => decide (j ≠ i)).length + 1 = ks.length := by
  have h1 : ks.filter (fun j => decide (j ≠ i)) = ks.erase i := by
    rw [hnd.erase_eq_filter]
    apply List.filter_congr
    intro x _
    by_cases hx : x = i <;> simp [hx]
  rw [h1, List.length_erase_of_mem hi]
  have : 0 < ks.length := List.length_pos_of_mem hi
  omega

theorem lagrangeBasis_length (m : List (Nat × Nat)) (i : Nat)
    (hnd : (keys m).Nodup) (hi : i ∈ keys m) : (lagrangeBasis q i m).length = m.length := by
  simp only [lagrangeBasis, basisLoop, List.length_map]
  rw [basisLoop_length m i ([one q], one q) (by simp), ← keys_length m, ← filter_ne_length hnd hi]
  simp; omega

theorem zipWith_add_lt (hq : 0 < q) (a b : Poly) : ∀ c ∈ List.zipWith (add q) a b, c < q := by
  induction a generalizing b with
  | nil => simp
  | cons x a ih =>
    cases b with
    | nil => simp
    | cons y b =>
      intro c hc
      rcases List.mem_cons.mp hc with rfl | hc
      · exact Nat.mod_lt _ hq
      · exact ih b c hc

/-- The `accPoly.Add(basis)` loop from a non-nil accumulator: never errs when all terms have the
    accumulator's length, and adds the polynomials. -/
theorem accumulate_fold (hq : 0 < q) (term : Nat × Nat → Poly) (m : List (Nat × Nat)) (L : Nat)
    (hterm : ∀ e ∈ m, (term e).length = L) (a : Poly) (ha : a.length = L) (halt : ∀ c ∈ a, c < q) :
    ∃ r, m.foldl (accStep q term) (some (some a)) = some (some r) ∧
      r.length = L ∧ (∀ c ∈ r, c < q) ∧
      toPoly q r = toPoly q a + (m.map fun e => toPoly q (term e)).sum := by
  induction m generalizing a with
  | nil => exact ⟨a, rfl, ha, halt, by simp⟩
  | cons e m ih =>
    have hl : (term e).length = L := hterm e List.mem_cons_self
    have hadd : polyAdd q a (term e) = some (List.zipWith (add q) a (term e)) := by
      simp [polyAdd, ha, hl]
    obtain ⟨r, h1, h2, h3, h4⟩ := ih (fun e' he' => hterm e' (List.mem_cons_of_mem _ he'))
      (List.zipWith (add q) a (term e)) (by simp [ha, hl]) (zipWith_add_lt hq _ _)
    refine ⟨r, ?_, h2, h3, ?_⟩
    · simp only [List.foldl_cons, accStep, hadd, Option.map_some]
      exact h1
    · rw [h4, toPoly_zipWith_add _ _ (by rw [ha, hl])]
      simp [add_assoc]

theorem accumulate_cast (hq : 0 < q) (term : Nat × Nat → Poly) (m : List (Nat × Nat)) (hm : m ≠ [])
    (L : Nat) (hterm : ∀ e ∈ m, (term e).length = L) (hlt : ∀ e ∈ m, ∀ c ∈ term e, c < q) :
    ∃ r, accResult (accumulate q term m) = some r ∧ r.length = L ∧ (∀ c ∈ r, c < q) ∧
      toPoly q r = (m.map fun e => toPoly q (term e)).sum := by
  cases m with
  | nil => exact absurd rfl hm
  | cons e m =>
    obtain ⟨r, h1, h2, h3, h4⟩ := accumulate_fold hq term m L (fun e' he' => hterm e' (List.mem_cons_of_mem _ he'))
      (term e) (hterm e List.mem_cons_self) (hlt e List.mem_cons_self)
    refine ⟨r, ?_, h2, h3, ?_⟩
    · simp only [accumulate, List.foldl_cons, accStep]
      rw [h1]; rfl
    · rw [h4]; simp

/-- Sum of `y_j · L_j` over a consistent map is the polynomial. -/
theorem lagrange_poly_map [Fact q.Prime] (m : List (Nat × Nat)) (f : (ZMod q)[X])
    (hnd : (keys m).Nodup) (hinj : ∀ a ∈ keys m, ∀ b ∈ keys m, vq q a = vq q b → a = b)
    (hcons : ∀ e ∈ m, ((e.2 : Nat) : ZMod q) = f.eval (vq q e.1)) (hdeg : f.degree < m.length) :
    (m.map fun e => C ((e.2 : Nat) : ZMod q) *
      (C (((keys m).filter fun j => decide (j ≠ e.1)).map fun j => (vq q e.1 - vq q j)⁻¹).prod *
        (((keys m).filter fun j => decide (j ≠ e.1)).map fun j => X - C (vq q j)).prod)).sum = f := by
  conv_rhs => rw [Kyber.Lagrange.list_eq_sum_basis (keys m) hnd (vq q) hinj f (by rw [keys_length]; exact hdeg)]
  simp only [keys, List.map_map]
  apply congrArg
  apply List.map_congr_left
  intro e he
  simp only [Function.comp, hcons e he]

theorem map_mul_lt (hq : 0 < q) (p : Poly) (a : Nat) : ∀ c ∈ p.map (fun c => mul q c a), c < q := by
  intro c hc
  obtain ⟨x, _, rfl⟩ := List.mem_map.mp hc
  exact Nat.mod_lt _ hq

/-- Core of `RecoverPriPoly` / `RecoverPubPoly`: the accumulated polynomial of a consistent map. -/
theorem recoverPoly_core [Fact q.Prime] (hq2 : 2 < q) (m : List (Nat × Nat)) (hm : m ≠ []) (f : (ZMod q)[X])
    (hnd : (keys m).Nodup) (hinj : ∀ a ∈ keys m, ∀ b ∈ keys m, vq q a = vq q b → a = b)
    (hcons : ∀ e ∈ m, ((e.2 : Nat) : ZMod q) = f.eval (vq q e.1)) (hdeg : f.degree < m.length) :
    ∃ r, accResult (accumulate q (fun e => (lagrangeBasis q e.1 m).map (fun c => mul q c e.2)) m) = some r ∧
      r.length = m.length ∧ (∀ c ∈ r, c < q) ∧ toPoly q r = f := by
  have hq : 0 < q := by omega
  obtain ⟨r, h1, h2, h3, h4⟩ := accumulate_cast hq (fun e => (lagrangeBasis q e.1 m).map (fun c => mul q c e.2)) m hm
    m.length (fun e he => by
      rw [List.length_map]
      exact lagrangeBasis_length m e.1 hnd (List.mem_map.mpr ⟨e, he, rfl⟩))
    (fun e _ => map_mul_lt hq _ _)
  refine ⟨r, h1, h2, h3, ?_⟩
  rw [h4, ← lagrange_poly_map m f hnd hinj hcons hdeg]
  apply congrArg
  apply List.map_congr_left
  intro e _
  rw [toPoly_map_mul_right, toPoly_lagrangeBasis hq2]

/-! ### The order of the slice does not matter -/

theorem sortByIndex_pairwise (l : List Share) : (sortByIndex l).Pairwise (fun a b => a.I ≤ b.I) := by
  have := List.pairwise_mergeSort (le := fun a b : Share => decide (a.I ≤ b.I))
    (by intro a b c; simp only [decide_eq_true_eq]; exact Nat.le_trans)
    (by intro a b; simp only [Bool.or_eq_true, decide_eq_true_eq]; exact Nat.le_total _ _) l
  simpa [sortByIndex] using this

/-- Two orderings of the same slice, in which entries with the same index are the same share, are
    sorted to the same list; hence `xyScalar`/`xyCommit` select the same map. -/
theorem xy_perm {l₁ l₂ : List (Option Share)} (h : l₁.Perm l₂)
    (hdup : ∀ a b, some a ∈ l₁ → some b ∈ l₁ → a.I = b.I → a = b) (t : Nat) : xy l₁ t = xy l₂ t := by
  have hp : (sortByIndex (dropNil l₁)).Perm (sortByIndex (dropNil l₂)) :=
    (List.mergeSort_perm _ _).trans ((h.filterMap id).trans (List.mergeSort_perm _ _).symm)
  have : sortByIndex (dropNil l₁) = sortByIndex (dropNil l₂) := by
    refine List.Perm.eq_of_pairwise ?_ (sortByIndex_pairwise _) (sortByIndex_pairwise _) hp
    intro a b ha hb hab hba
    have ha' : some a ∈ l₁ := mem_dropNil.mp (mem_sortByIndex.mp ha)
    have hb' : some b ∈ l₁ := h.mem_iff.mpr (mem_dropNil.mp (mem_sortByIndex.mp hb))
    exact hdup a b ha' hb' (Nat.le_antisymm hab hba)
  unfold xy
  rw [this]

/-! ### Go iterates maps in random order: the loops do not depend on it -/

theorem keys_filter_perm {m m' : List (Nat × Nat)} (h : m.Perm m') (i : Nat) :
    ((keys m).filter fun j => decide (j ≠ i)).Perm ((keys m').filter fun j => decide (j ≠ i)) :=
  (h.map _).filter _

theorem secretTerm_perm [Fact q.Prime] (hq2 : 2 < q) {m m' : List (Nat × Nat)} (h : m.Perm m') (e : Nat × Nat) :
    secretTerm q m e = secretTerm q m' e := by
  have hq : 0 < q := by omega
  have h1 : secretTerm q m e < q := div_lt hq _ _
  have h2 : secretTerm q m' e < q := div_lt hq _ _
  apply (eq_iff_cast_eq _ _ h1 h2).mpr
  rw [secretTerm_cast hq2, secretTerm_cast hq2, ((keys_filter_perm h e.1).map _).prod_eq,
    ((keys_filter_perm h e.1).map _).prod_eq]

theorem commitTerm_perm [Fact q.Prime] (hq2 : 2 < q) {m m' : List (Nat × Nat)} (h : m.Perm m') (e : Nat × Nat) :
    commitTerm q m e = commitTerm q m' e := by
  have hq : 0 < q := by omega
  have h1 : commitTerm q m e < q := mul_lt hq _ _
  have h2 : commitTerm q m' e < q := mul_lt hq _ _
  apply (eq_iff_cast_eq _ _ h1 h2).mpr
  rw [commitTerm_cast hq2, commitTerm_cast hq2, ((keys_filter_perm h e.1).map _).prod_eq,
    ((keys_filter_perm h e.1).map _).prod_eq]

theorem foldl_add_perm (hq : 0 < q) {m m' : List (Nat × Nat)} (h : m.Perm m') (g : Nat × Nat → Nat) (a : Nat)
    (ha : a < q) : m.foldl (fun acc e => add q acc (g e)) a = m'.foldl (fun acc e => add q acc (g e)) a := by
  apply (eq_iff_cast_eq _ _ (foldl_add_lt hq _ _ _ ha) (foldl_add_lt hq _ _ _ ha)).mpr
  rw [foldl_add_cast, foldl_add_cast, (h.map _).sum_eq]

theorem lagrangeBasis_lt (hq : 0 < q) (i : Nat) (m : List (Nat × Nat)) : ∀ c ∈ lagrangeBasis q i m, c < q :=
  map_mul_lt hq _ _

theorem lagrangeBasis_perm [Fact q.Prime] (hq2 : 2 < q) {m m' : List (Nat × Nat)} (h : m.Perm m') (i : Nat) :
    lagrangeBasis q i m = lagrangeBasis q i m' := by
  have hq : 0 < q := by omega
  apply toPoly_injective (q := q) ?_ (lagrangeBasis_lt hq _ _) (lagrangeBasis_lt hq _ _)
  · rw [toPoly_lagrangeBasis hq2, toPoly_lagrangeBasis hq2, ((keys_filter_perm h i).map _).prod_eq,
      ((keys_filter_perm h i).map _).prod_eq]
  · simp only [lagrangeBasis, basisLoop, List.length_map]
    rw [basisLoop_length m i _ (by simp), basisLoop_length m' i _ (by simp), (keys_filter_perm h i).length_eq]

/-- The accumulation loop gives the same polynomial for every iteration order. -/
theorem accumulate_perm (hq : 0 < q) (term : Nat × Nat → Poly) {m m' : List (Nat × Nat)} (h : m.Perm m')
    (L : Nat) (hterm : ∀ e ∈ m, (term e).length = L) (hlt : ∀ e ∈ m, ∀ c ∈ term e, c < q) :
    accResult (accumulate q term m) = accResult (accumulate q term m') := by
  by_cases hm : m = []
  · subst hm; rw [List.nil_perm.mp h]
  · have hm' : m' ≠ [] := fun e => hm (by rw [e] at h; exact List.perm_nil.mp h)
    obtain ⟨r, h1, h2, h3, h4⟩ := accumulate_cast hq term m hm L hterm hlt
    obtain ⟨r', h1', h2', h3', h4'⟩ := accumulate_cast hq term m' hm' L
      (fun e he => hterm e (h.mem_iff.mpr he)) (fun e he => hlt e (h.mem_iff.mpr he))
    rw [h1, h1', toPoly_injective (q := q) (h2.trans h2'.symm) h3 h3' (by rw [h4, h4', (h.map _).sum_eq])]

/-! ### Share slices lying on a polynomial -/

/-- Index admissible for recovery: `idx+1` neither wraps in `uint32` nor reaches the group order. -/
def IdxOK (q i : Nat) : Prop := i + 1 < 2 ^ 32 ∧ i + 1 < q

/-- Every usable entry of the slice has an admissible index and a value representing `f(I+1)`. -/
def OnCurve (q : Nat) (f : (ZMod q)[X]) (l : List (Option Share)) : Prop :=
  ∀ sh, some sh ∈ l → ∀ v, sh.V = some v → IdxOK q sh.I ∧ ((v : Nat) : ZMod q) = f.eval ((sh.I : ZMod q) + 1)

/-- Every usable entry of the slice is exactly what `Eval` of the coefficient list `cs` returns
    (`PriPoly.Eval`, or `PubPoly.Eval` on discrete logs), at an admissible index. -/
def OnPoly (q : Nat) (cs : Poly) (l : List (Option Share)) : Prop :=
  ∀ sh, some sh ∈ l → ∀ v, sh.V = some v → IdxOK q sh.I ∧ v = evalAt q cs (xEval q sh.I)

theorem IdxOK.of_le (hq : 2 ^ 32 ≤ q) {i : Nat} (hi : i + 1 < 2 ^ 32) : IdxOK q i := ⟨hi, by omega⟩

theorem OnPoly.onCurve {cs : Poly} {l : List (Option Share)} (h : OnPoly q cs l) : OnCurve q (toPoly q cs) l := by
  intro sh hsh v hv
  obtain ⟨h1, h2⟩ := h sh hsh v hv
  exact ⟨h1, by rw [h2, evalAt_cast, xEval_cast]⟩

theorem xy_cons_of_onCurve {f : (ZMod q)[X]} {l : List (Option Share)} (h : OnCurve q f l) (t : Nat) :
    ∀ e ∈ xy l t, IdxOK q e.1 ∧ ((e.2 : Nat) : ZMod q) = f.eval (vq q e.1) := by
  intro e he
  obtain ⟨s, hs, h1, h2⟩ := xy_mem he
  obtain ⟨hok, hv⟩ := h s hs e.2 h2
  rw [h1] at hok hv
  exact ⟨hok, by rw [hv, vq, xRec_cast hok.1]⟩

theorem xy_inj_of_onCurve {f : (ZMod q)[X]} {l : List (Option Share)} (h : OnCurve q f l) (t : Nat) :
    ∀ a ∈ keys (xy l t), ∀ b ∈ keys (xy l t), vq q a = vq q b → a = b := by
  intro a ha b hb hab
  obtain ⟨ea, hea, rfl⟩ := List.mem_map.mp ha
  obtain ⟨eb, heb, rfl⟩ := List.mem_map.mp hb
  have h1 := (xy_cons_of_onCurve h t ea hea).1
  have h2 := (xy_cons_of_onCurve h t eb heb).1
  exact xRec_cast_inj h1.1 h2.1 h1.2 h2.2 hab

end Kyber.Share
