import KyberModel.Proto.Eddsa
import KyberModel.Proto.Schnorr
import KyberModel.Lib.SigBytes
import KyberModel.Lib.SigAlg
import Mathlib.GroupTheory.OrderOfElement
import Mathlib.Algebra.Field.ZMod
/-
C08 helper lemmas about the executable Ed25519 model (`Groups/Edwards.lean`) as used by the EdDSA model.

The group law of the curve model is being proved separately (`Lib/Edwards*.lean`). Until it is tied to
the executable `Nat` model, everything the EdDSA theorems need from it is collected in ONE explicit
hypothesis bundle, `EdLaws G`: a map `φ` from model points into an abstract commutative group `G` that is
a homomorphism for `add`/`neg`/`smul` on valid points (reduced coordinates on the curve), injective on
valid points, with `L • φ base = 0`, `φ base ≠ 0`, closure of validity, and `dec (enc P) = some P`.
No theorem uses it as an axiom; it is always an argument.
-/
namespace Kyber.SigEd
open Kyber Kyber.Ed25519 Kyber.Eddsa

/-- Reduced affine coordinates on the curve. -/
def Valid (P : Edwards.Pt) : Prop := P.x < p ∧ P.y < p ∧ onCurve P = true

/-- Everything the EdDSA theorems use about the Ed25519 curve model (see the header). -/
structure EdLaws (G : Type) [AddCommGroup G] where
  φ : Edwards.Pt → G
  valid_base : Valid base
  valid_zero : Valid Edwards.zero
  valid_add : ∀ P Q, Valid P → Valid Q → Valid (add P Q)
  valid_neg : ∀ P, Valid P → Valid (neg P)
  valid_smul : ∀ k P, Valid P → Valid (smul k P)
  valid_dec : ∀ bs P, dec bs = some P → Valid P
  φ_add : ∀ P Q, Valid P → Valid Q → φ (add P Q) = φ P + φ Q
  φ_neg : ∀ P, Valid P → φ (neg P) = - φ P
  φ_smul : ∀ k P, Valid P → φ (smul k P) = k • φ P
  φ_zero : φ Edwards.zero = 0
  φ_inj : ∀ P Q, Valid P → Valid Q → φ P = φ Q → P = Q
  dec_enc : ∀ P, Valid P → dec (enc P) = some P
  L_base : L • φ base = 0
  base_ne : φ base ≠ 0

variable {G : Type} [AddCommGroup G]

theorem EdLaws.enc_inj (E : EdLaws G) {P Q : Edwards.Pt} (hP : Valid P) (hQ : Valid Q)
    (h : enc P = enc Q) : P = Q := by
  have h1 := E.dec_enc P hP
  have h2 := E.dec_enc Q hQ
  rw [h, h2] at h1
  exact (Option.some.inj h1).symm

/-- `k•B` only depends on `k mod L`. -/
theorem EdLaws.smul_base_mod (E : EdLaws G) (k : Nat) : smul (k % L) base = smul k base := by
  apply E.φ_inj _ _ (E.valid_smul _ _ E.valid_base) (E.valid_smul _ _ E.valid_base)
  rw [E.φ_smul _ _ E.valid_base, E.φ_smul _ _ E.valid_base]
  conv_rhs => rw [← Nat.div_add_mod' k L]
  rw [add_smul, mul_smul, E.L_base, smul_zero, zero_add]

/-- The base point has order exactly `L` in `G` (for prime `L`). -/
theorem EdLaws.addOrderOf_base (E : EdLaws G) (hL : Nat.Prime L) : addOrderOf (E.φ base) = L := by
  have : Fact L.Prime := ⟨hL⟩
  exact addOrderOf_eq_prime E.L_base E.base_ne

theorem EdLaws.smul_base_eq_zero_iff (E : EdLaws G) (hL : Nat.Prime L) (k : Nat) :
    k • E.φ base = 0 ↔ k % L = 0 := by
  rw [← addOrderOf_dvd_iff_nsmul_eq_zero, E.addOrderOf_base hL, Nat.dvd_iff_mod_eq_zero]

/-! ### Lengths -/

theorem enc_length (P : Edwards.Pt) : (enc P).length = 32 := by
  unfold enc Edwards.enc; simp

theorem sha512_length (m : Bytes) : (Sha512.hash m).length = 64 := by
  unfold Sha512.hash Sha512.out64
  simp [encodeBE_length]

/-! ### The torsion table -/

/-- A table entry with the sign bit set. -/
def setSign (w : Bytes) : Bytes := w.take 31 ++ [w.getD 31 0 ||| 0x80]

/-- The ten encodings `HasSmallOrder` recognises: each `weakKeys` entry with either sign bit. -/
def torsionEncodings : List Bytes := weakKeys.flatMap (fun w => [w, setSign w])

/-- `e` decodes, and the decoded point is killed by 8. -/
def order8 (e : Bytes) : Bool :=
  match dec e with
  | some P => smul 8 P == Edwards.zero
  | none => false

/-- Kernel computation in the curve model over the finite table: every `weakKeys` entry, with either
    sign bit, decodes to a point `P` with `8•P = O`. -/
theorem torsionEncodings_order8 : torsionEncodings.all order8 = true := by
  decide +kernel

open Kyber.SigBytes

theorem torsion_order8 (e : Bytes) (he : e ∈ torsionEncodings) : order8 e = true :=
  (@List.all_eq_true Bytes order8 torsionEncodings).mp torsionEncodings_order8 e he

theorem order8_of_dec {e : Bytes} {P : Edwards.Pt} (hd : dec e = some P) (h : order8 e = true) :
    smul 8 P = Edwards.zero := by
  unfold order8 at h
  rw [hd] at h
  exact eq_of_beq h

set_option maxRecDepth 100000 in
theorem nat_split_top (n : Nat) (h : n < 256) : n = (n &&& 0x7f) ∨ n = (n &&& 0x7f) ||| 0x80 := by
  revert n; decide

theorem byte_split_top (b : UInt8) : b = (b &&& 0x7f) ∨ b = (b &&& 0x7f) ||| 0x80 := by
  rcases nat_split_top b.toNat (UInt8.toNat_lt b) with h | h
  · left; apply UInt8.toNat_inj.mp; rw [UInt8.toNat_and]; exact h
  · right; apply UInt8.toNat_inj.mp; rw [UInt8.toNat_or, UInt8.toNat_and]; exact h

theorem len32_take_getD (s : Bytes) (h : s.length = 32) : s = s.take 31 ++ [s.getD 31 0] := by
  obtain ⟨b0, mid, b31, rfl, hmid⟩ := len32_split s h
  have hg31 : (b0 :: (mid ++ [b31])).getD 31 0 = b31 := by
    simp [List.getD_eq_getElem?_getD, hmid]
  rw [hg31]
  have : (b0 :: (mid ++ [b31])).take 31 = b0 :: mid := by
    simp only [List.take_succ_cons]
    rw [← hmid, List.take_left']
    rfl
  rw [this]; simp

theorem weakKeys_length {w : Bytes} (hw : w ∈ weakKeys) : w.length = 32 := by
  simp only [weakKeys, List.mem_cons, List.not_mem_nil, or_false] at hw
  rcases hw with rfl | rfl | rfl | rfl | rfl <;> rfl

/-- `HasSmallOrder P → 8•P = O` (for a valid `P`; uses `dec (enc P) = some P` from `EdLaws`). -/
theorem hasSmallOrder_smul8 (E : EdLaws G) {P : Edwards.Pt} (hP : Valid P)
    (h : hasSmallOrder P = true) : smul 8 P = Edwards.zero := by
  unfold hasSmallOrder at h
  have hlen := enc_length P
  obtain ⟨w, hw, h1, h2⟩ := (hasSmallOrderBytes_iff (enc P) hlen).mp h
  have hwl := weakKeys_length hw
  have hs := len32_take_getD (enc P) hlen
  have hwd := len32_take_getD w hwl
  have hmem : enc P ∈ torsionEncodings := by
    unfold torsionEncodings
    rw [List.mem_flatMap]
    refine ⟨w, hw, ?_⟩
    rcases byte_split_top ((enc P).getD 31 0) with hb | hb
    · rw [h2] at hb
      have : enc P = w := by rw [hs, h1, hb, ← hwd]
      rw [this]; exact List.mem_cons_self
    · rw [h2] at hb
      have : enc P = setSign w := by rw [hs, h1, hb]; rfl
      rw [this]; exact List.mem_cons_of_mem _ List.mem_cons_self
  exact order8_of_dec (E.dec_enc P hP) (torsion_order8 (enc P) hmem)

theorem p_pos : 0 < p := by unfold p; norm_num
theorem p_odd : p % 2 = 1 := by unfold p; norm_num

theorem sqrtRatio_lt {u v x : Nat} (h : Edwards.sqrtRatio p sqrtM1 u v = some x) : x < p := by
  unfold Edwards.sqrtRatio at h
  simp only at h
  split at h
  · rw [← Option.some.inj h]; exact Nat.mod_lt _ p_pos
  · split at h
    · rw [← Option.some.inj h]; exact Nat.mod_lt _ p_pos
    · exact absurd h (by simp)

/-- What `dec` returns: the reduced `y`, an `x < p`, and (when `x ≠ 0`) the parity asked for. -/
theorem dec_spec {bs : Bytes} {P : Edwards.Pt} (h : dec bs = some P) :
    bs.length = 32 ∧ P.y = decodeLE bs % 2 ^ 255 % p ∧ P.x < p ∧
      (P.x ≠ 0 → P.x % 2 = decodeLE bs / 2 ^ 255) := by
  unfold dec at h
  by_cases hlen : bs.length = 32
  swap
  · simp [hlen] at h
  simp only [hlen, ne_eq, not_true_eq_false, if_false] at h
  refine ⟨hlen, ?_⟩
  have hn : decodeLE bs < 2 ^ 256 := by
    have := decodeLE_lt bs; rw [hlen] at this
    calc decodeLE bs < 256 ^ 32 := this
      _ = 2 ^ 256 := by norm_num
  have hsign : decodeLE bs / 2 ^ 255 < 2 := by omega
  split at h
  · cases h
  · next x hx =>
    have hxlt := sqrtRatio_lt hx
    cases h
    refine ⟨rfl, ?_, ?_⟩
    · simp only
      split
      · exact hxlt
      · unfold negMod; exact Nat.mod_lt _ p_pos
    · simp only
      intro hne
      split
      · next hpar => exact hpar
      · next hpar =>
        split at hne
        · next hpar' => exact absurd hpar' hpar
        · unfold negMod at hne ⊢
          have hp := p_odd
          have hx0 : x ≠ 0 := by
            intro h0; subst h0; simp at hne
          rw [Nat.mod_eq_of_lt hxlt] at hne ⊢
          have : p - x < p := by omega
          rw [Nat.mod_eq_of_lt this]
          omega

/-- A canonical encoding of a point with `x ≠ 0` is reproduced by `enc ∘ dec`. -/
theorem enc_dec_of_canonical {bs : Bytes} {P : Edwards.Pt} (h : dec bs = some P)
    (hc : ptIsCanonical bs = true) (hx : P.x ≠ 0) : enc P = bs := by
  obtain ⟨hlen, hy, hxlt, hpar⟩ := dec_spec h
  have hcan := ((ptIsCanonical_iff bs).mp hc).2
  unfold enc Edwards.enc
  show encodeLE 32 (P.y % p + 2 ^ 255 * (P.x % p % 2)) = bs
  rw [hy, Nat.mod_eq_of_lt hcan, Nat.mod_eq_of_lt hcan, Nat.mod_eq_of_lt hxlt, hpar hx]
  have : decodeLE bs % 2 ^ 255 + 2 ^ 255 * (decodeLE bs / 2 ^ 255) = decodeLE bs := by omega
  rw [this]
  have := encodeLE_decodeLE bs
  rwa [hlen] at this


theorem hasSmallOrder_zero_one : hasSmallOrder ⟨0, 1⟩ = true := by decide +kernel
theorem hasSmallOrder_zero_neg_one : hasSmallOrder ⟨0, p - 1⟩ = true := by decide +kernel

/-- A valid point with `x = 0` is `(0, ±1)`, which `HasSmallOrder` recognises (needs `p` prime). -/
theorem hasSmallOrder_of_x_zero (hp : Nat.Prime p) {P : Edwards.Pt} (hv : Valid P) (hx : P.x = 0) :
    hasSmallOrder P = true := by
  obtain ⟨_, hy, hon⟩ := hv
  have hon' : (P.y * P.y) % p = 1 := by
    unfold onCurve Edwards.onCurve at hon
    have := of_decide_eq_true hon
    simp only [hx, curve] at this
    simpa [Nat.mod_eq_of_lt (show 1 < p by unfold p; norm_num)] using this
  have : Fact p.Prime := ⟨hp⟩
  have hz : ((P.y : ZMod p)) * (P.y : ZMod p) = 1 := by
    have : ((P.y * P.y : Nat) : ZMod p) = ((1 : Nat) : ZMod p) := by
      rw [ZMod.natCast_eq_natCast_iff', hon', Nat.mod_eq_of_lt (show 1 < p by unfold p; norm_num)]
    simpa using this
  rcases mul_self_eq_one_iff.mp hz with h1 | h1
  · have : P.y = 1 := by
      have h2 : ((P.y : Nat) : ZMod p) = ((1 : Nat) : ZMod p) := by simpa using h1
      rw [ZMod.natCast_eq_natCast_iff', Nat.mod_eq_of_lt hy, Nat.mod_eq_of_lt (show 1 < p by unfold p; norm_num)] at h2
      exact h2
    have hP : P = ⟨0, 1⟩ := by cases P; simp_all
    rw [hP]; exact hasSmallOrder_zero_one
  · have : P.y = p - 1 := by
      have h2 : ((P.y + 1 : Nat) : ZMod p) = ((0 : Nat) : ZMod p) := by
        push_cast; rw [h1]; ring
      rw [ZMod.natCast_eq_natCast_iff'] at h2
      simp only [Nat.zero_mod] at h2
      have hdvd : p ∣ P.y + 1 := Nat.dvd_of_mod_eq_zero h2
      have hle : p ≤ P.y + 1 := Nat.le_of_dvd (by omega) hdvd
      omega
    have hP : P = ⟨0, p - 1⟩ := by cases P; simp_all
    rw [hP]; exact hasSmallOrder_zero_neg_one

/-- Accepted by the canonicity and small-order checks ⇒ the bytes ARE the encoding of the decoded point. -/
theorem enc_dec_of_checks (E : EdLaws G) (hp : Nat.Prime p) {bs : Bytes} {P : Edwards.Pt}
    (h : dec bs = some P) (hc : ptIsCanonical bs = true) (hs : hasSmallOrder P = false) : enc P = bs := by
  apply enc_dec_of_canonical h hc
  intro hx
  have := hasSmallOrder_of_x_zero hp (E.valid_dec bs P h) hx
  rw [hs] at this
  exact absurd this (by simp)

/-- Decision logic of `eddsa.VerifyWithChecks`: it answers `ok` exactly when every coded check passes. -/
theorem verifyCore_ok_iff (chal : Bytes → Bytes → Bytes → Nat) (pub msg sig : Bytes) :
    verifyCore chal pub msg sig = .ok ↔
      sig.length = 64 ∧ scIsCanonical (sig.drop 32) = true ∧ ptIsCanonical (sig.take 32) = true ∧
      ∃ R, dec (sig.take 32) = some R ∧ hasSmallOrder R = false ∧ ptIsCanonical pub = true ∧
      ∃ A, dec pub = some A ∧ hasSmallOrder A = false ∧
        equationHolds R A (decodeLE (sig.drop 32)) (chal (sig.take 32) pub msg) = true := by
  unfold verifyCore
  by_cases h1 : sig.length = 64
  swap
  · simp [h1]
  by_cases h2 : scIsCanonical (sig.drop 32) = true
  swap
  · simp [h1, h2]
  by_cases h3 : ptIsCanonical (sig.take 32) = true
  swap
  · simp [h1, h2, h3]
  simp only [h1, h2, h3, ne_eq, not_true_eq_false, if_false, Bool.not_true, Bool.false_eq_true, true_and]
  cases hR : dec (sig.take 32) with
  | none => simp
  | some R =>
    simp only [Option.some.injEq, exists_eq_left']
    by_cases h4 : hasSmallOrder R = true
    · simp [h4]
    have h4' : hasSmallOrder R = false := by simpa using h4
    by_cases h5 : ptIsCanonical pub = true
    swap
    · simp [h4', h5]
    simp only [h4', h5, Bool.false_eq_true, if_false, Bool.not_true, true_and]
    cases hA : dec pub with
    | none => simp
    | some A =>
      simp only [Option.some.injEq, exists_eq_left']
      by_cases h6 : hasSmallOrder A = true
      · simp [h6]
      have h6' : hasSmallOrder A = false := by simpa using h6
      simp only [h6', Bool.false_eq_true, if_false, true_and]
      by_cases h7 : equationHolds R A (decodeLE (sig.drop 32)) (chal (sig.take 32) pub msg) = true
      · simp [h7]
      · simp [h7]

set_option maxRecDepth 100000 in
theorem nat_andf8 (n : Nat) (h : n < 256) : n &&& 0xf8 = n / 8 * 8 := by
  revert n; decide

set_option maxRecDepth 100000 in
theorem nat_clamp_top (n : Nat) (h : n < 256) : (n &&& 0x7f) ||| 0x40 = n % 64 + 64 := by
  revert n; decide

set_option maxRecDepth 100000 in
theorem nat_and224 (n : Nat) (h : n < 256) : (n &&& 224 = 0 ↔ n < 32) := by
  revert n; decide

theorem byte_andf8 (b : UInt8) : (b &&& 0xf8).toNat = b.toNat / 8 * 8 := by
  rw [UInt8.toNat_and]; exact nat_andf8 b.toNat (UInt8.toNat_lt b)

theorem byte_clamp_top (b : UInt8) : ((b &&& 0x7f) ||| 0x40).toNat = b.toNat % 64 + 64 := by
  rw [UInt8.toNat_or, UInt8.toNat_and]; exact nat_clamp_top b.toNat (UInt8.toNat_lt b)

/-- The clamped scalar as a number: clear the low three bits and bit 255, set bit 254. -/
theorem clamp_spec (d : Bytes) (hd : 32 ≤ d.length) :
    decodeLE (clamp d) = (decodeLE (d.take 32) % 2 ^ 254) / 8 * 8 + 2 ^ 254 := by
  have hlen : (d.take 32).length = 32 := by simp [hd]
  obtain ⟨b0, mid, b31, hsplit, hmid⟩ := len32_split (d.take 32) hlen
  unfold clamp
  rw [hsplit]
  have h1 : (mid ++ [b31]).take 30 = mid := by rw [← hmid, List.take_left']; rfl
  have h2 : (mid ++ [b31]).getD 30 0 = b31 := by simp [List.getD_eq_getElem?_getD, hmid]
  simp only [h1, h2]
  have hM : decodeLE mid < 256 ^ 30 := by have := decodeLE_lt mid; rwa [hmid] at this
  have hb0 : b0.toNat < 256 := UInt8.toNat_lt b0
  have hb31 : b31.toNat < 256 := UInt8.toNat_lt b31
  simp only [decodeLE, decodeLE_append, hmid, byte_andf8, byte_clamp_top, Nat.mul_zero, Nat.add_zero]
  generalize decodeLE mid = M at *
  omega

theorem clamp_range (d : Bytes) (hd : 32 ≤ d.length) :
    decodeLE (clamp d) % 8 = 0 ∧ 2 ^ 254 ≤ decodeLE (clamp d) ∧ decodeLE (clamp d) < 2 ^ 255 := by
  rw [clamp_spec d hd]
  omega

/-- A clamped scalar is never a multiple of `L`. -/
theorem clamp_mod_L_ne (hL : Nat.Prime L) (d : Bytes) (hd : 32 ≤ d.length) : decodeLE (clamp d) % L ≠ 0 := by
  obtain ⟨h8, hlo, hhi⟩ := clamp_range d hd
  intro h0
  have hdvd : L ∣ decodeLE (clamp d) := Nat.dvd_of_mod_eq_zero h0
  obtain ⟨m, hm⟩ : ∃ m, decodeLE (clamp d) = 8 * m := ⟨decodeLE (clamp d) / 8, by omega⟩
  rw [hm] at hdvd
  have hcop : Nat.Coprime L 8 := by
    rw [Nat.coprime_comm]
    have : (8 : Nat) = 2 ^ 3 := by norm_num
    rw [this]
    apply Nat.Coprime.pow_left
    rw [Nat.coprime_primes Nat.prime_two hL]
    unfold L; norm_num
  have hdm : L ∣ m := hcop.dvd_of_dvd_mul_left hdvd
  have hmpos : 0 < m := by omega
  have := Nat.le_of_dvd hmpos hdm
  unfold L at this
  omega

/-! ### Lemmas used by the EdDSA theorems of `Props/C08.lean` -/
section eddsaHelpers
attribute [local irreducible] Ed25519.smul Ed25519.add Ed25519.neg Ed25519.dec

/-- From the last equation of `VerifyWithChecks`: the points are equal, hence `s•B − h•A = R`. -/
theorem equation_points (E : EdLaws G) {R A : Edwards.Pt} (hR : Valid R) (hA : Valid A) (s h : Nat)
    (heq : equationHolds R A s h = true) :
    E.φ R + h • E.φ A = s • E.φ base := by
  unfold equationHolds at heq
  have h1 := of_decide_eq_true heq
  have hv1 : Valid (add R (smul h A)) := E.valid_add _ _ hR (E.valid_smul _ _ hA)
  have hv2 : Valid (smul s base) := E.valid_smul _ _ E.valid_base
  have h2 := E.enc_inj hv1 hv2 h1
  have h3 := congrArg E.φ h2
  rw [E.φ_add _ _ hR (E.valid_smul _ _ hA), E.φ_smul _ _ hA, E.φ_smul _ _ E.valid_base] at h3
  exact h3

theorem top_byte_of_lt_L (sb : Bytes) (hlen : sb.length = 32) (h : decodeLE sb < L) :
    (sb.getD 31 0 &&& 224 != 0) = false := by
  obtain ⟨b0, mid, b31, rfl, hmid⟩ := len32_split sb hlen
  have hg31 : (b0 :: (mid ++ [b31])).getD 31 0 = b31 := by
    simp [List.getD_eq_getElem?_getD, hmid]
  rw [hg31]
  have hval : decodeLE (b0 :: (mid ++ [b31])) = b0.toNat + 256 * (decodeLE mid + 256 ^ 30 * b31.toNat) := by
    simp only [decodeLE, decodeLE_append, hmid]; ring
  rw [hval] at h
  unfold L at h
  have hb : b31.toNat < 32 := by omega
  have : b31 &&& 224 = 0 := by
    apply UInt8.toNat_inj.mp
    rw [UInt8.toNat_and]
    exact (nat_and224 b31.toNat (UInt8.toNat_lt b31)).mpr hb
  simp [this]

theorem L_pos : 0 < L := by unfold L; norm_num

/-- The encoding of any point passes `point.IsCanonical`. -/
theorem ptIsCanonical_enc (P : Edwards.Pt) : ptIsCanonical (enc P) = true := by
  rw [ptIsCanonical_iff]
  refine ⟨enc_length P, ?_⟩
  unfold enc Edwards.enc
  have hy : P.y % curve.p < p := Nat.mod_lt _ p_pos
  have hb : P.x % curve.p % 2 < 2 := Nat.mod_lt _ (by norm_num)
  rw [decodeLE_encodeLE_of_lt]
  · have : (P.y % curve.p + 2 ^ 255 * (P.x % curve.p % 2)) % 2 ^ 255 = P.y % curve.p := by
      unfold p at hy; omega
    rw [this]; exact hy
  · unfold p at hy
    have : (256 : Nat) ^ 32 = 2 ^ 256 := by norm_num
    rw [this]; omega

/-- The 32-byte encoding of a reduced scalar passes `scalar.IsCanonical`. -/
theorem scIsCanonical_encode {s : Nat} (hs : s < L) : scIsCanonical (encodeLE 32 s) = true := by
  rw [scIsCanonical_iff]
  refine ⟨by simp, ?_⟩
  rw [decodeLE_encodeLE_of_lt]
  · exact hs
  · unfold L at hs; have : (256 : Nat) ^ 32 = 2 ^ 256 := by norm_num
    rw [this]; omega

theorem decode_encode_scalar {s : Nat} (hs : s < L) : decodeLE (encodeLE 32 s) = s := by
  rw [decodeLE_encodeLE_of_lt]
  unfold L at hs; have : (256 : Nat) ^ 32 = 2 ^ 256 := by norm_num
  rw [this]; omega

/-- `k•B` with `k` not a multiple of `L` is not of small order. -/
theorem smul_base_not_smallOrder (E : EdLaws G) (hL : Nat.Prime L) (k : Nat) (hk : k % L ≠ 0) :
    hasSmallOrder (smul k base) = false := by
  by_contra hne
  have hso : hasSmallOrder (smul k base) = true := by simpa using hne
  have hv := E.valid_smul k base E.valid_base
  have h8 := hasSmallOrder_smul8 E hv hso
  have h9 := congrArg E.φ h8
  rw [E.φ_smul _ _ hv, E.φ_smul _ _ E.valid_base, E.φ_zero, ← mul_smul, E.smul_base_eq_zero_iff hL] at h9
  have hdvd : L ∣ 8 * k := Nat.dvd_of_mod_eq_zero h9
  rcases (Nat.Prime.dvd_mul hL).mp hdvd with h | h
  · have := Nat.le_of_dvd (by norm_num) h
    unfold L at this; omega
  · exact hk (Nat.mod_eq_zero_of_dvd h)

theorem smul_zero_base : smul 0 base = Edwards.zero := by
  unfold smul Edwards.smul; rfl

end eddsaHelpers

end Kyber.SigEd
