import KyberModel.Groups.Edwards
/-
Kernel-evaluated facts about the Ed25519 constants (kept in their own module: the evaluation of
`L • B` takes a minute or two and should not be redone when other proofs change).
-/
namespace Kyber.Ed25519
open Kyber Kyber.Edwards

theorem base_onCurve : onCurve base = true := by decide +kernel

set_option maxRecDepth 100000 in
/-- `L • B = O`, by kernel evaluation of the model's double-and-add. -/
theorem smul_L_base : smul L base = Edwards.zero := by decide +kernel

theorem base_ne_zero : base ≠ Edwards.zero := by decide +kernel

end Kyber.Ed25519
