import KyberModel.IR.Sem
import Mathlib.Algebra.Field.Basic
import Mathlib.Tactic.Ring
/-
Interpretation of the IR over any commutative ring / field, and generic lemmas.
-/
namespace Kyber.IR

/-- The IR operations in a commutative ring. -/
def ringOps (F : Type) [CommRing F] : Ops F :=
  { add := (· + ·), sub := (· - ·), mul := (· * ·), neg := (- ·), zero := 0, one := 1 }

/-- The IR operations in a commutative ring with two distinguished unary maps (tower levels). -/
def towerOps (F : Type) [CommRing F] (s1 s2 : F → F) : Ops F :=
  { add := (· + ·), sub := (· - ·), mul := (· * ·), neg := (- ·), zero := 0, one := 1, sp1 := s1, sp2 := s2 }

/-- Frame rule: a location that no instruction writes keeps its value. -/
theorem run_frame {α : Type} (o : Ops α) (p : List Instr) (s : Loc → α) (l : Loc)
    (h : l ∉ writes p) : run o p s l = s l := by
  induction p generalizing s with
  | nil => rfl
  | cons i is ih =>
    simp only [writes, List.map_cons, List.mem_cons, not_or] at h
    simp only [run, List.foldl_cons]
    have := ih (step o s i) (by simpa [writes] using h.2)
    simp only [run] at this
    rw [this]
    simp only [step]
    rw [if_neg h.1]

end Kyber.IR
