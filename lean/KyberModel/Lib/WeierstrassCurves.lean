import KyberModel.Lib.WeierstrassModel
import KyberModel.Lib.WeierstrassFacts
import KyberModel.Lib.Primes
/-
The four short-Weierstrass reference models (P-256, BN256 G1, BN254 G1, BLS12-381 G1) satisfy the side
conditions of `Lib/WeierstrassModel.lean`: prime field, non-zero discriminant, valid base point of the
advertised (prime) order.
-/
namespace Kyber.WCurves
open Kyber Kyber.Weierstrass Kyber.WModel

instance p256_prime : Fact (Nat.Prime P256.curve.p) := ⟨P256.p_prime⟩
instance bn256_prime : Fact (Nat.Prime BN256.curve.p) := ⟨BN256.p_prime⟩
instance bn254_prime : Fact (Nat.Prime BN254.curve.p) := ⟨BN254.p_prime⟩
instance bls_prime : Fact (Nat.Prime BLS12381.curve.p) := ⟨BLS12381.p_prime⟩

theorem p256_good : Good P256.curve := ⟨WFacts.p256_gt3, WFacts.p256_disc⟩
theorem bn256_good : Good BN256.curve := ⟨WFacts.bn256_gt3, WFacts.bn256_disc⟩
theorem bn254_good : Good BN254.curve := ⟨WFacts.bn254_gt3, WFacts.bn254_disc⟩
theorem bls_good : Good BLS12381.curve := ⟨WFacts.bls_gt3, WFacts.bls_disc⟩

theorem p256_base_valid : Valid P256.curve P256.base :=
  ⟨by decide +kernel, by decide +kernel, WFacts.p256_base_on⟩
theorem bn256_base_valid : Valid BN256.curve BN256.base :=
  ⟨by decide +kernel, by decide +kernel, WFacts.bn256_base_on⟩
theorem bn254_base_valid : Valid BN254.curve BN254.base :=
  ⟨by decide +kernel, by decide +kernel, WFacts.bn254_base_on⟩
theorem bls_base_valid : Valid BLS12381.curve BLS12381.base :=
  ⟨by decide +kernel, by decide +kernel, WFacts.bls_base_on⟩

end Kyber.WCurves
