import KyberModel.Proto.Eddsa
import KyberModel.Lib.Bytes
import Mathlib.Tactic.Ring
import Mathlib.Tactic.Linarith
/-
C08 helper lemmas: the hand models of the constant-time byte loops (`point.IsCanonical`,
`scalar.IsCanonical`, `HasSmallOrder`) are equivalent to arithmetic statements, for every input.
-/
open Kyber Kyber.Eddsa
namespace Kyber.SigBytes

theorem decodeLE_append (a b : Bytes) : decodeLE (a ++ b) = decodeLE a + 256 ^ a.length * decodeLE b := by
  induction a with
  | nil => simp [decodeLE]
  | cons x a ih => simp only [List.cons_append, decodeLE, ih, List.length_cons, pow_succ]; ring

theorem decodeLE_singleton (b : UInt8) : decodeLE [b] = b.toNat := by simp [decodeLE]

/-- All bytes are `0xff` iff the value is the maximum for the length. -/
theorem all_ff_iff (l : Bytes) : (∀ b ∈ l, b = 0xff) ↔ decodeLE l = 256 ^ l.length - 1 := by
  induction l with
  | nil => simp [decodeLE]
  | cons x l ih =>
    have hx : x.toNat < 256 := UInt8.toNat_lt x
    have hl := decodeLE_lt l
    have hpos : 0 < 256 ^ l.length := Nat.pow_pos (by norm_num)
    simp only [List.mem_cons, forall_eq_or_imp, decodeLE, List.length_cons, pow_succ, ih]
    have hxff : x = 0xff ↔ x.toNat = 255 := by
      rw [← UInt8.toNat_inj]; rfl
    rw [hxff]
    constructor
    · rintro ⟨h1, h2⟩; omega
    · intro h; constructor <;> omega

theorem len32_split (s : Bytes) (h : s.length = 32) :
    ∃ b0 mid b31, s = b0 :: (mid ++ [b31]) ∧ mid.length = 30 := by
  match s, h with
  | b0 :: t, h =>
    have ht : t.length = 31 := by simpa using h
    have hne : t ≠ [] := by intro h0; rw [h0] at ht; simp at ht
    refine ⟨b0, t.dropLast, t.getLast hne, ?_, ?_⟩
    · rw [List.dropLast_concat_getLast hne]
    · rw [List.length_dropLast, ht]

theorem fold_or_xor_eq_zero (l : Bytes) : ∀ c0 : UInt8,
    l.foldl (fun c b => c ||| (b ^^^ 0xff)) c0 = 0 ↔ c0 = 0 ∧ ∀ b ∈ l, b = 0xff := by
  induction l with
  | nil => intro c0; simp
  | cons x l ih =>
    intro c0
    simp only [List.foldl_cons, ih, UInt8.or_eq_zero_iff, UInt8.xor_eq_zero_iff, List.mem_cons, forall_eq_or_imp]
    tauto


set_option maxRecDepth 100000 in
theorem nat_and7f (n : Nat) (h : n < 256) : ((n &&& 0x7f) ^^^ 0x7f = 0 ↔ n % 128 = 127) := by
  revert n; decide

set_option maxRecDepth 100000 in
theorem nat_andf0 (n : Nat) (h : n < 256) : (n &&& 0xf0 = 0 ↔ n < 16) := by
  revert n; decide

theorem isZeroMask_eq (c : UInt8) : isZeroMask c = if c = 0 then 0xff else 0 := by
  unfold isZeroMask
  apply UInt8.toNat_inj.mp
  rw [UInt16.toNat_toUInt8, UInt16.toNat_shiftRight, UInt16.toNat_sub, UInt8.toNat_toUInt16]
  have hc : c.toNat < 256 := UInt8.toNat_lt c
  split
  · next h => subst h; decide
  · next h =>
    have : c.toNat ≠ 0 := fun h0 => h (UInt8.toNat_inj.mp (by simpa using h0))
    simp only [Nat.shiftRight_eq_div_pow]
    have e1 : (1 : UInt16).toNat = 1 := rfl
    have e2 : (8 : UInt16).toNat % 16 = 8 := rfl
    rw [e1, e2]
    have : (0 : UInt8).toNat = 0 := rfl
    rw [this]
    omega

/-- `byte((0xed - 1 - uint16(b)) >> 8)` is `0xff` iff `b ≥ 0xed`. -/
theorem geEdMask_eq (b : UInt8) :
    ((0xed - 1 - b.toUInt16) >>> 8).toUInt8 = if 0xed ≤ b.toNat then (0xff : UInt8) else 0 := by
  apply UInt8.toNat_inj.mp
  rw [UInt16.toNat_toUInt8, UInt16.toNat_shiftRight, UInt16.toNat_sub, UInt8.toNat_toUInt16]
  have hb : b.toNat < 256 := UInt8.toNat_lt b
  have e0 : ((0xed : UInt16) - 1).toNat = 236 := by decide
  have e2 : (8 : UInt16).toNat % 16 = 8 := rfl
  rw [e0, e2]
  simp only [Nat.shiftRight_eq_div_pow]
  split
  · have : (0xff : UInt8).toNat = 255 := rfl
    rw [this]; omega
  · have : (0 : UInt8).toNat = 0 := rfl
    rw [this]; omega

theorem and7f_xor_eq_zero (b : UInt8) : (b &&& 0x7f) ^^^ 0x7f = 0 ↔ b.toNat % 128 = 127 := by
  rw [← nat_and7f b.toNat (UInt8.toNat_lt b), ← UInt8.toNat_inj]
  rw [UInt8.toNat_xor, UInt8.toNat_and]
  rfl

/-- `point.IsCanonical` (hand model of the constant-time code) decides `y < p` on every 32-byte string. -/
theorem ptIsCanonical_iff (s : Bytes) :
    ptIsCanonical s = true ↔ s.length = 32 ∧ decodeLE s % 2 ^ 255 < Ed25519.p := by
  unfold ptIsCanonical
  by_cases hlen : s.length = 32
  swap
  · simp [hlen]
  obtain ⟨b0, mid, b31, rfl, hmid⟩ := len32_split s hlen
  have hg31 : (b0 :: (mid ++ [b31])).getD 31 0 = b31 := by
    simp [List.getD_eq_getElem?_getD, hmid]
  have hg0 : (b0 :: (mid ++ [b31])).getD 0 0 = b0 := rfl
  have hmid' : ((b0 :: (mid ++ [b31])).drop 1).take 30 = mid := by
    simp only [List.drop_succ_cons, List.drop_zero]
    rw [← hmid, List.take_left']
    rfl
  simp only [hlen, ne_eq, not_true_eq_false, if_false, hg31, hg0, hmid', true_and]
  rw [isZeroMask_eq, geEdMask_eq]
  have hfold := fold_or_xor_eq_zero mid.reverse ((b31 &&& 0x7f) ^^^ 0x7f)
  have hall : (∀ b ∈ mid.reverse, b = 0xff) ↔ decodeLE mid = 256 ^ 30 - 1 := by
    rw [← hmid, ← all_ff_iff]
    simp
  rw [and7f_xor_eq_zero, hall] at hfold
  -- arithmetic
  have hb0 : b0.toNat < 256 := UInt8.toNat_lt b0
  have hb31 : b31.toNat < 256 := UInt8.toNat_lt b31
  have hM : decodeLE mid < 256 ^ 30 := by have := decodeLE_lt mid; rwa [hmid] at this
  have hval : decodeLE (b0 :: (mid ++ [b31])) = b0.toNat + 256 * (decodeLE mid + 256 ^ 30 * b31.toNat) := by
    simp only [decodeLE, decodeLE_append, hmid]; ring
  rw [hval]
  unfold Ed25519.p
  generalize decodeLE mid = M at *
  by_cases hc : List.foldl (fun c b => c ||| b ^^^ 255) ((b31 &&& 0x7f) ^^^ 0x7f) mid.reverse = 0
  · have hc' := hfold.mp hc
    rw [if_pos hc]
    by_cases hd : 0xed ≤ b0.toNat
    · rw [if_pos hd]
      have : ((1 : UInt8) - (0xff &&& 0xff &&& 1) == 1) = false := by decide
      rw [this]
      simp only [Bool.false_eq_true, false_iff, not_lt]
      omega
    · rw [if_neg hd]
      have : ((1 : UInt8) - (0xff &&& 0 &&& 1) == 1) = true := by decide
      rw [this]
      simp only [true_iff]
      omega
  · have hc' : ¬ (b31.toNat % 128 = 127 ∧ M = 256 ^ 30 - 1) := fun h => hc (hfold.mpr h)
    rw [if_neg hc]
    have : ∀ d : UInt8, ((1 : UInt8) - (0 &&& d &&& 1) == 1) = true := by
      intro d; simp
    rw [this]
    simp only [true_iff]
    omega


/-- `byte((uint16(x) - uint16(l)) >> 8)` is `0xff` iff `x < l`. -/
theorem ltMask_eq (x l : UInt8) :
    ((x.toUInt16 - l.toUInt16) >>> 8).toUInt8 = if x.toNat < l.toNat then (0xff : UInt8) else 0 := by
  apply UInt8.toNat_inj.mp
  rw [UInt16.toNat_toUInt8, UInt16.toNat_shiftRight, UInt16.toNat_sub, UInt8.toNat_toUInt16, UInt8.toNat_toUInt16]
  have hx : x.toNat < 256 := UInt8.toNat_lt x
  have hl : l.toNat < 256 := UInt8.toNat_lt l
  have e2 : (8 : UInt16).toNat % 16 = 8 := rfl
  rw [e2]
  simp only [Nat.shiftRight_eq_div_pow]
  split
  · have : (0xff : UInt8).toNat = 255 := rfl
    rw [this]; omega
  · have : (0 : UInt8).toNat = 0 := rfl
    rw [this]; omega

/-- `byte((uint16(x) ^ uint16(l) - 1) >> 8)` is `0xff` iff `x = l`. -/
theorem eqMask_eq (x l : UInt8) :
    (((x.toUInt16 ^^^ l.toUInt16) - 1) >>> 8).toUInt8 = if x = l then (0xff : UInt8) else 0 := by
  have h : x.toUInt16 ^^^ l.toUInt16 = (x ^^^ l).toUInt16 := by
    apply UInt16.toNat_inj.mp
    simp [UInt16.toNat_xor, UInt8.toNat_toUInt16]
  rw [h]
  have := isZeroMask_eq (x ^^^ l)
  unfold isZeroMask at this
  rw [this]
  simp only [UInt8.xor_eq_zero_iff]

theorem decodeLE_inj_of_length_eq : ∀ (a b : Bytes), a.length = b.length → decodeLE a = decodeLE b → a = b := by
  intro a b hl h
  have ha := encodeLE_decodeLE a
  have hb := encodeLE_decodeLE b
  rw [← ha, ← hb, hl, h]

/-- The comparison loop of `scalar.IsCanonical`, run from the most significant byte down over two
    strings of equal length, computes (`x < l` as numbers, `x = l`). -/
theorem scLoop_eq : ∀ (xs ls : Bytes), xs.length = ls.length →
    ((xs.zip ls).reverse).foldl scStep (0, 1) =
      (if decodeLE xs < decodeLE ls then (1 : UInt8) else 0, if decodeLE xs = decodeLE ls then (1 : UInt8) else 0) := by
  intro xs
  induction xs with
  | nil => intro ls h; cases ls with
    | nil => simp [decodeLE]
    | cons _ _ => simp at h
  | cons x xs ih =>
    intro ls h
    cases ls with
    | nil => simp at h
    | cons l ls =>
      have h' : xs.length = ls.length := by simpa using h
      simp only [List.zip_cons_cons, List.reverse_cons, List.foldl_append, List.foldl_cons, List.foldl_nil, ih ls h']
      unfold scStep
      simp only [ltMask_eq, eqMask_eq]
      have hdx : decodeLE (x :: xs) = x.toNat + 256 * decodeLE xs := rfl
      have hdl : decodeLE (l :: ls) = l.toNat + 256 * decodeLE ls := rfl
      have hx : x.toNat < 256 := UInt8.toNat_lt x
      have hl : l.toNat < 256 := UInt8.toNat_lt l
      have hxl : x = l ↔ x.toNat = l.toNat := UInt8.toNat_inj.symm
      by_cases h1 : decodeLE xs < decodeLE ls
      · have r1 : decodeLE (x :: xs) < decodeLE (l :: ls) := by omega
        have r2 : ¬ (decodeLE (x :: xs) = decodeLE (l :: ls)) := by omega
        have r3 : ¬ decodeLE xs = decodeLE ls := by omega
        rw [if_pos h1, if_neg r3, if_pos r1, if_neg r2]
        split <;> split <;> decide
      · by_cases h2 : decodeLE xs = decodeLE ls
        · rw [if_neg h1, if_pos h2]
          by_cases h3 : x.toNat < l.toNat
          · have r1 : decodeLE (x :: xs) < decodeLE (l :: ls) := by omega
            have r2 : ¬ (decodeLE (x :: xs) = decodeLE (l :: ls)) := by omega
            have r4 : ¬ x = l := by rw [hxl]; omega
            rw [if_pos h3, if_neg r4, if_pos r1, if_neg r2]; decide
          · by_cases h4 : x = l
            · have r1 : ¬ decodeLE (x :: xs) < decodeLE (l :: ls) := by rw [hxl] at h4; omega
              have r2 : (decodeLE (x :: xs) = decodeLE (l :: ls)) := by rw [hxl] at h4; omega
              rw [if_neg h3, if_pos h4, if_neg r1, if_pos r2]; decide
            · have r1 : ¬ decodeLE (x :: xs) < decodeLE (l :: ls) := by omega
              have r2 : ¬ (decodeLE (x :: xs) = decodeLE (l :: ls)) := by rw [hxl] at h4; omega
              rw [if_neg h3, if_neg h4, if_neg r1, if_neg r2]; decide
        · have r1 : ¬ decodeLE (x :: xs) < decodeLE (l :: ls) := by omega
          have r2 : ¬ (decodeLE (x :: xs) = decodeLE (l :: ls)) := by omega
          rw [if_neg h1, if_neg h2, if_neg r1, if_neg r2]
          split <;> split <;> decide

theorem decodeLE_Lbytes : decodeLE Lbytes = Ed25519.L := by
  unfold Lbytes
  rw [decodeLE_encodeLE_of_lt]
  unfold Ed25519.L; norm_num

theorem andf0_eq_zero (b : UInt8) : (b &&& 0xf0 == 0) = true ↔ b.toNat < 16 := by
  rw [beq_iff_eq, ← nat_andf0 b.toNat (UInt8.toNat_lt b), ← UInt8.toNat_inj, UInt8.toNat_and]
  rfl

/-- `scalar.IsCanonical` (hand model of the constant-time code) decides `s < L` on every 32-byte string. -/
theorem scIsCanonical_iff (sb : Bytes) :
    scIsCanonical sb = true ↔ sb.length = 32 ∧ decodeLE sb < Ed25519.L := by
  unfold scIsCanonical
  by_cases hlen : sb.length = 32
  swap
  · simp [hlen]
  simp only [hlen, ne_eq, not_true_eq_false, if_false, true_and]
  have hLlen : sb.length = Lbytes.length := by rw [hlen]; unfold Lbytes; simp
  by_cases htop : (sb.getD 31 0 &&& 0xf0 == 0) = true
  · rw [if_pos htop]
    simp only [true_iff]
    obtain ⟨b0, mid, b31, rfl, hmid⟩ := len32_split sb hlen
    have hg31 : (b0 :: (mid ++ [b31])).getD 31 0 = b31 := by
      simp [List.getD_eq_getElem?_getD, hmid]
    rw [hg31, andf0_eq_zero] at htop
    have hM : decodeLE mid < 256 ^ 30 := by have := decodeLE_lt mid; rwa [hmid] at this
    have hb0 : b0.toNat < 256 := UInt8.toNat_lt b0
    have hval : decodeLE (b0 :: (mid ++ [b31])) = b0.toNat + 256 * (decodeLE mid + 256 ^ 30 * b31.toNat) := by
      simp only [decodeLE, decodeLE_append, hmid]; ring
    rw [hval]; unfold Ed25519.L
    omega
  · rw [if_neg htop, scLoop_eq sb Lbytes hLlen, decodeLE_Lbytes]
    by_cases h : decodeLE sb < Ed25519.L
    · simp [h]
    · simp [h]


/-! ### `HasSmallOrder` -/

theorem fold_zip_xor_eq_zero : ∀ (a b : Bytes) (c0 : UInt8), a.length = b.length →
    ((a.zip b).foldl (fun c sw => c ||| (sw.1 ^^^ sw.2)) c0 = 0 ↔ c0 = 0 ∧ a = b) := by
  intro a
  induction a with
  | nil => intro b c0 h; cases b with
    | nil => simp
    | cons _ _ => simp at h
  | cons x a ih =>
    intro b c0 h
    cases b with
    | nil => simp at h
    | cons y b =>
      have h' : a.length = b.length := by simpa using h
      simp only [List.zip_cons_cons, List.foldl_cons, ih b _ h', UInt8.or_eq_zero_iff, UInt8.xor_eq_zero_iff,
        List.cons.injEq]
      tauto

/-- The accumulator for one table entry vanishes iff the 255 low bits agree. -/
theorem weakAcc_eq_zero (s w : Bytes) (hs : s.length = 32) (hw : w.length = 32) :
    weakAcc s w = 0 ↔ s.take 31 = w.take 31 ∧ (s.getD 31 0 &&& 0x7f) = w.getD 31 0 := by
  unfold weakAcc
  have hl : (s.take 31).length = (w.take 31).length := by simp [hs, hw]
  rw [UInt8.or_eq_zero_iff, fold_zip_xor_eq_zero _ _ _ hl, UInt8.xor_eq_zero_iff]
  simp

/-- Bit 8 of a `uint16`: `(k>>8)&1 > 0`. -/
def bit8 (k : UInt16) : Bool := (k >>> 8) &&& 1 > 0

theorem bit8_eq_testBit (k : UInt16) : bit8 k = k.toNat.testBit 8 := by
  unfold bit8
  rw [Bool.eq_iff_iff, decide_eq_true_iff, gt_iff_lt, UInt16.lt_iff_toNat_lt, UInt16.toNat_and, UInt16.toNat_shiftRight]
  have e0 : (0 : UInt16).toNat = 0 := rfl
  have e1 : (1 : UInt16).toNat = 1 := rfl
  have e2 : (8 : UInt16).toNat % 16 = 8 := rfl
  rw [e0, e1, e2, Nat.testBit_eq_decide_div_mod_eq, Nat.and_one_is_mod, Nat.shiftRight_eq_div_pow]
  simp; omega

theorem bit8_or (a b : UInt16) : bit8 (a ||| b) = (bit8 a || bit8 b) := by
  rw [bit8_eq_testBit, bit8_eq_testBit, bit8_eq_testBit, UInt16.toNat_or, Nat.testBit_or]

theorem bit8_zero : bit8 0 = false := by decide

theorem bit8_sub_one (c : UInt8) : bit8 (c.toUInt16 - 1) = (c == 0) := by
  rw [bit8_eq_testBit, UInt16.toNat_sub, UInt8.toNat_toUInt16]
  have hc : c.toNat < 256 := UInt8.toNat_lt c
  have e1 : (1 : UInt16).toNat = 1 := rfl
  rw [e1]
  by_cases h : c = 0
  · subst h; decide
  · have hne : c.toNat ≠ 0 := fun h0 => h (UInt8.toNat_inj.mp (by simpa using h0))
    have : (2 ^ 16 - 1 + c.toNat) % 2 ^ 16 < 2 ^ 8 := by omega
    rw [Nat.testBit_lt_two_pow this]
    simp [h]

theorem fold_bit8 (s : Bytes) (ws : List Bytes) : ∀ k0 : UInt16,
    bit8 (ws.foldl (fun k w => k ||| ((weakAcc s w).toUInt16 - 1)) k0) = (bit8 k0 || ws.any (fun w => weakAcc s w == 0)) := by
  induction ws with
  | nil => intro k0; simp
  | cons w ws ih =>
    intro k0
    simp only [List.foldl_cons, ih, bit8_or, bit8_sub_one, List.any_cons, Bool.or_assoc]

/-- `HasSmallOrder` answers `true` exactly when the 255 low bits of the encoding are one of the five
    table entries. -/
theorem hasSmallOrderBytes_iff (s : Bytes) (hs : s.length = 32) :
    hasSmallOrderBytes s = true ↔
      ∃ w ∈ weakKeys, s.take 31 = w.take 31 ∧ (s.getD 31 0 &&& 0x7f) = w.getD 31 0 := by
  have hb : hasSmallOrderBytes s = bit8 (weakKeys.foldl (fun k w => k ||| ((weakAcc s w).toUInt16 - 1)) 0) := rfl
  rw [hb, fold_bit8, bit8_zero, Bool.false_or, List.any_eq_true]
  constructor
  · rintro ⟨w, hw, h⟩
    have hwl : w.length = 32 := by
      simp only [weakKeys, List.mem_cons, List.not_mem_nil, or_false] at hw
      rcases hw with rfl | rfl | rfl | rfl | rfl <;> rfl
    exact ⟨w, hw, (weakAcc_eq_zero s w hs hwl).mp (by simpa using h)⟩
  · rintro ⟨w, hw, h⟩
    have hwl : w.length = 32 := by
      simp only [weakKeys, List.mem_cons, List.not_mem_nil, or_false] at hw
      rcases hw with rfl | rfl | rfl | rfl | rfl <;> rfl
    exact ⟨w, hw, by simpa using (weakAcc_eq_zero s w hs hwl).mpr h⟩

end Kyber.SigBytes
