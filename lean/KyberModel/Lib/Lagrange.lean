import Mathlib.LinearAlgebra.Lagrange
/-
Library L (DESIGN §5): Lagrange interpolation in the shape kyber's recovery loops compute it,
over lists of distinct keys (the model's association-list "maps").
-/
namespace Kyber.Lagrange
open Polynomial

variable {F : Type*} [Field F] {ι : Type*} [DecidableEq ι]

/-- Value at `0` of a polynomial of degree `< #s` from its values at the injective nodes `v i`. -/
theorem eval_zero_eq_sum {s : Finset ι} {v : ι → F} {f : F[X]} (hv : Set.InjOn v s)
    (hdeg : f.degree < s.card) :
    f.eval 0 = ∑ i ∈ s, f.eval (v i) * ((∏ j ∈ s.erase i, v j) / ∏ j ∈ s.erase i, (v j - v i)) := by
  conv_lhs => rw [Lagrange.eq_interpolate hv hdeg]
  rw [Lagrange.interpolate_apply, eval_finsetSum]
  refine Finset.sum_congr rfl fun i hi => ?_
  rw [eval_mul, eval_C, Lagrange.basis, eval_prod, ← Finset.prod_div_distrib]
  congr 1
  refine Finset.prod_congr rfl fun j hj => ?_
  have hji : j ≠ i := Finset.ne_of_mem_erase hj
  have hjs : j ∈ s := Finset.mem_of_mem_erase hj
  have hne : v j - v i ≠ 0 := sub_ne_zero.mpr fun h => hji (hv hjs hi h)
  have hne' : v i - v j ≠ 0 := sub_ne_zero.mpr fun h => hji (hv hjs hi h.symm)
  simp only [Lagrange.basisDivisor, eval_mul, eval_C, eval_sub, eval_X]
  field_simp
  ring

/-- The polynomial itself as the sum of scaled Lagrange basis polynomials, written as products. -/
theorem eq_sum_basis {s : Finset ι} {v : ι → F} {f : F[X]} (hv : Set.InjOn v s)
    (hdeg : f.degree < s.card) :
    f = ∑ i ∈ s, C (f.eval (v i)) *
          (C (∏ j ∈ s.erase i, (v i - v j)⁻¹) * ∏ j ∈ s.erase i, (X - C (v j))) := by
  conv_lhs => rw [Lagrange.eq_interpolate hv hdeg]
  rw [Lagrange.interpolate_apply]
  refine Finset.sum_congr rfl fun i _ => ?_
  rw [Lagrange.basis]
  simp only [Lagrange.basisDivisor, Finset.prod_mul_distrib, map_prod]

/-! ### List forms (keys of an association list) -/

theorem toFinset_filter_ne (ks : List ι) (i : ι) :
    (ks.filter (fun j => decide (j ≠ i))).toFinset = ks.toFinset.erase i := by
  ext x; simp [and_comm]

theorem list_prod_filter_ne {M : Type*} [CommMonoid M] (ks : List ι) (hnd : ks.Nodup) (i : ι) (g : ι → M) :
    ((ks.filter (fun j => decide (j ≠ i))).map g).prod = ∏ j ∈ ks.toFinset.erase i, g j := by
  rw [← toFinset_filter_ne, List.prod_toFinset g (hnd.filter _)]

/-- `eval_zero_eq_sum` over a duplicate-free key list. -/
theorem list_eval_zero_eq_sum (ks : List ι) (hnd : ks.Nodup) (v : ι → F)
    (hv : ∀ a ∈ ks, ∀ b ∈ ks, v a = v b → a = b) (f : F[X]) (hdeg : f.degree < ks.length) :
    f.eval 0 = (ks.map fun i => f.eval (v i) *
      (((ks.filter (fun j => decide (j ≠ i))).map v).prod /
        ((ks.filter (fun j => decide (j ≠ i))).map fun j => v j - v i).prod)).sum := by
  have hv' : Set.InjOn v (ks.toFinset : Set ι) := by
    intro a ha b hb h
    exact hv a (by simpa using ha) b (by simpa using hb) h
  have hcard : ks.toFinset.card = ks.length := List.toFinset_card_of_nodup hnd
  rw [eval_zero_eq_sum hv' (by rw [hcard]; exact hdeg), ← List.sum_toFinset _ hnd]
  refine Finset.sum_congr rfl fun i _ => ?_
  rw [list_prod_filter_ne ks hnd i v, list_prod_filter_ne ks hnd i fun j => v j - v i]

/-- `eq_sum_basis` over a duplicate-free key list. -/
theorem list_eq_sum_basis (ks : List ι) (hnd : ks.Nodup) (v : ι → F)
    (hv : ∀ a ∈ ks, ∀ b ∈ ks, v a = v b → a = b) (f : F[X]) (hdeg : f.degree < ks.length) :
    f = (ks.map fun i => C (f.eval (v i)) *
      (C ((ks.filter (fun j => decide (j ≠ i))).map fun j => (v i - v j)⁻¹).prod *
        ((ks.filter (fun j => decide (j ≠ i))).map fun j => X - C (v j)).prod)).sum := by
  have hv' : Set.InjOn v (ks.toFinset : Set ι) := by
    intro a ha b hb h
    exact hv a (by simpa using ha) b (by simpa using hb) h
  have hcard : ks.toFinset.card = ks.length := List.toFinset_card_of_nodup hnd
  refine (eq_sum_basis hv' (by rw [hcard]; exact hdeg)).trans ?_
  rw [← List.sum_toFinset _ hnd]
  refine Finset.sum_congr rfl fun i _ => ?_
  rw [list_prod_filter_ne ks hnd i fun j => (v i - v j)⁻¹,
    list_prod_filter_ne ks hnd i fun j => X - C (v j)]

/-- Recovery "in the exponent": the same Lagrange coefficients applied to the images of the values
    under `a ↦ a • H` give `f(0) • H`, in any module over the field. -/
theorem list_smul_eval_zero {G : Type*} [AddCommGroup G] [Module F G] (H : G)
    (ks : List ι) (hnd : ks.Nodup) (v : ι → F)
    (hv : ∀ a ∈ ks, ∀ b ∈ ks, v a = v b → a = b) (f : F[X]) (hdeg : f.degree < ks.length) :
    (ks.map fun i =>
      (((ks.filter (fun j => decide (j ≠ i))).map v).prod /
        ((ks.filter (fun j => decide (j ≠ i))).map fun j => v j - v i).prod) • (f.eval (v i) • H)).sum
      = f.eval 0 • H := by
  have key : ∀ (l : List ι) (a : ι → F), (l.map fun i => a i • H).sum = (l.map a).sum • H := by
    intro l a
    induction l with
    | nil => simp
    | cons x l ih => simp [ih, add_smul]
  rw [list_eval_zero_eq_sum ks hnd v hv f hdeg, ← key]
  apply congrArg
  apply List.map_congr_left
  intro i _
  rw [smul_smul, mul_comm]

end Kyber.Lagrange
