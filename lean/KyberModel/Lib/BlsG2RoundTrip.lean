import KyberModel.Lib.BlsG2Dec
import KyberModel.Lib.DecodeBLS
/-
BLS12-381 G2: re-encoding an accepted value decodes to the same value (`decG2 bs = some P →
decG2 (encG2 P) = some P`): the flag written by `encG2` selects the same root again, whichever root the
square-root routine returned, because negation flips the lexicographic sign of a non-zero element.
-/
namespace Kyber.BlsG2Dec
open Kyber Kyber.BLS12381 Kyber.Fp2 Kyber.TwistModel Kyber.DecodeLib

theorem p_lt32 : p < 32 * 256 ^ 47 := by norm_num [p]
theorem p_odd : p = 2 * ((p - 1) / 2) + 1 := by norm_num [p]

/-! ### the sign flag -/

/-- Negation flips the lexicographic sign of a non-zero reduced element. -/
theorem largerRoot_neg (y : Fp2.El) (hr : Reduced p y) (hne : ¬ (y.1 = 0 ∧ y.2 = 0)) :
    largerRoot (Fp2.neg p y) = !largerRoot y := by
  obtain ⟨h1, h2⟩ := hr
  have hodd := p_odd
  have hp := p_pos
  unfold largerRoot Fp2.neg negMod
  simp only []
  rw [Nat.mod_eq_of_lt h1, Nat.mod_eq_of_lt h2]
  by_cases hb : y.2 = 0
  · -- decided by the real part
    have ha : y.1 ≠ 0 := fun h => hne ⟨h, hb⟩
    have e2 : (p - y.2) % p = 0 := by rw [hb]; simp
    have e1 : (p - y.1) % p = p - y.1 := Nat.mod_eq_of_lt (by omega)
    rw [hb] at e2 ⊢
    simp only [Nat.sub_zero, Nat.mod_self, ne_eq, not_true_eq_false, if_false, Nat.zero_mod]
    rw [e1, Nat.mod_eq_of_lt (by omega : p - y.1 < p)]
    by_cases hc : (p - 1) / 2 < y.1
    · have : ¬ ((p - 1) / 2 < p - y.1) := by omega
      simp [hc, this]
    · have : (p - 1) / 2 < p - y.1 := by omega
      simp [hc, this]
  · have e2 : (p - y.2) % p = p - y.2 := Nat.mod_eq_of_lt (by omega)
    rw [e2, Nat.mod_eq_of_lt (by omega : p - y.2 < p)]
    have hn : p - y.2 ≠ 0 := by omega
    simp only [ne_eq, hn, not_false_eq_true, if_true, hb]
    by_cases hc : (p - 1) / 2 < y.2
    · have : ¬ ((p - 1) / 2 < p - y.2) := by omega
      simp [hc, this]
    · have : (p - 1) / 2 < p - y.2 := by omega
      simp [hc, this]

theorem neg_zero_el (y : Fp2.El) (h : y.1 = 0 ∧ y.2 = 0) : Fp2.neg p y = y := by
  obtain ⟨a, b⟩ := y
  simp only at h
  obtain ⟨rfl, rfl⟩ := h
  unfold Fp2.neg negMod
  simp

/-- Re-selecting with the flag of the selected root gives the selected root. -/
theorem selectRoot_fix (big : Bool) (y0 : Fp2.El) (hr : Reduced p y0) :
    selectRoot (largerRoot (selectRoot big y0)) y0 = selectRoot big y0 := by
  unfold selectRoot
  by_cases hc : largerRoot y0 = big
  · rw [if_pos hc, if_pos rfl]
  · rw [if_neg hc]
    by_cases hz : y0.1 = 0 ∧ y0.2 = 0
    · rw [neg_zero_el y0 hz]
      by_cases h2 : largerRoot y0 = largerRoot y0
      · rw [if_pos h2]
      · exact absurd rfl h2
    · rw [largerRoot_neg y0 hr hz]
      have : ¬ (largerRoot y0 = !largerRoot y0) := by cases largerRoot y0 <;> simp
      rw [if_neg this]

/-! ### framing of the 96 bytes -/

theorem encG2_some (x y : Fp2.El) (hx : x.2 < p) :
    encG2 (some (x, y)) =
      (UInt8.ofNat (x.2 / 256 ^ 47) ||| (if largerRoot y then 0xa0 else 0x80)) :: (encodeBE 47 x.2 ++ encodeBE 48 x.1) := by
  have hplt := p_lt32
  have htop : x.2 / 256 ^ 47 % 256 = x.2 / 256 ^ 47 := Nat.mod_eq_of_lt (by omega)
  have henc : encodeBE 48 x.2 = UInt8.ofNat (x.2 / 256 ^ 47) :: encodeBE 47 x.2 := by
    rw [encodeBE_succ 47 x.2, htop]
  simp only [encG2, henc, List.cons_append]

theorem decG2_compressed (xr xi : Nat) (hxi : xi < p) (big : Bool) :
    decG2 ((UInt8.ofNat (xi / 256 ^ 47) ||| (if big then 0xa0 else 0x80)) :: (encodeBE 47 xi ++ encodeBE 48 xr))
      = decG2Affine big (decodeBE (encodeBE 48 xr)) xi := by
  have hplt := p_lt32
  have htop : xi / 256 ^ 47 % 256 = xi / 256 ^ 47 := Nat.mod_eq_of_lt (by omega)
  have htop32 : xi / 256 ^ 47 < 32 := by omega
  have hx48 : xi < 256 ^ 48 := by omega
  have henc : encodeBE 48 xi = UInt8.ofNat (xi / 256 ^ 47) :: encodeBE 47 xi := by
    rw [encodeBE_succ 47 xi, htop]
  obtain ⟨hfa, hf8⟩ := or_flag _ htop32
  have hback : decodeBE (UInt8.ofNat (xi / 256 ^ 47) :: encodeBE 47 xi) = xi := by
    rw [← henc, decodeBE_encodeBE_of_lt 48 xi hx48]
  have hlen : (encodeBE 47 xi ++ encodeBE 48 xr).length = 95 := by simp
  have htake : (encodeBE 47 xi ++ encodeBE 48 xr).take 47 = encodeBE 47 xi :=
    take_append_of_length _ _ 47 (by simp)
  have hdrop : (encodeBE 47 xi ++ encodeBE 48 xr).drop 47 = encodeBE 48 xr :=
    drop_append_of_length _ _ 47 (by simp)
  unfold decG2
  dsimp only
  rw [if_neg (by rw [hlen]; exact fun h => h rfl), htake, hdrop]
  cases big
  · simp only [Bool.false_eq_true, if_false, hf8]
    have e1 : ¬ ((xi / 256 ^ 47 + 128) / 128 = 0) := by omega
    have e2 : ¬ ((xi / 256 ^ 47 + 128) / 64 % 2 = 1) := by omega
    have e3 : ((xi / 256 ^ 47 + 128) / 32 % 2 == 1) = false := by simp; omega
    have e4 : (xi / 256 ^ 47 + 128) % 32 = xi / 256 ^ 47 := by omega
    rw [if_neg e1, if_neg e2, e3, e4, hback]
  · simp only [if_true, hfa]
    have e1 : ¬ ((xi / 256 ^ 47 + 160) / 128 = 0) := by omega
    have e2 : ¬ ((xi / 256 ^ 47 + 160) / 64 % 2 = 1) := by omega
    have e3 : ((xi / 256 ^ 47 + 160) / 32 % 2 == 1) = true := by simp; omega
    have e4 : (xi / 256 ^ 47 + 160) % 32 = xi / 256 ^ 47 := by omega
    rw [if_neg e1, if_neg e2, e3, e4, hback]

/-! ### shape of an accepted affine value -/

theorem decG2Affine_some (big : Bool) (xr xi : Nat) (P : Fp2.Pt) (h : decG2Affine big xr xi = some P) :
    xi < p ∧ xr < p ∧ ∃ y0, sqrtFp2 (rhsG2 (xr, xi)) = some y0 ∧
      P = some ((xr, xi), selectRoot big y0) ∧ Fp2.smul twist r P = none := by
  unfold decG2Affine at h
  by_cases h1 : p ≤ xi ∨ p ≤ xr
  · rw [if_pos h1] at h; exact absurd h (by simp)
  · rw [if_neg h1] at h
    cases hs : sqrtFp2 (rhsG2 (xr, xi)) with
    | none => rw [hs] at h; exact absurd h (by simp)
    | some y0 =>
      rw [hs] at h
      dsimp only at h
      by_cases h6 : Fp2.smul twist r (some ((xr, xi), selectRoot big y0)) = none
      · rw [if_pos h6] at h
        have hP := Option.some.inj h
        refine ⟨by omega, by omega, y0, rfl, hP.symm, ?_⟩
        rw [← hP]; exact h6
      · rw [if_neg h6] at h; exact absurd h (by simp)

theorem decG2Affine_of (big : Bool) (xr xi : Nat) (y0 : Fp2.El) (hxi : xi < p) (hxr : xr < p)
    (hs : sqrtFp2 (rhsG2 (xr, xi)) = some y0)
    (hr : Fp2.smul twist r (some ((xr, xi), selectRoot big y0)) = none) :
    decG2Affine big xr xi = some (some ((xr, xi), selectRoot big y0)) := by
  unfold decG2Affine
  rw [if_neg (by omega), hs]
  dsimp only
  rw [if_pos hr]

/-- An accepted non-identity value came out of the affine branch. -/
theorem decG2_some_affine (bs : Bytes) (x y : Fp2.El) (h : decG2 bs = some (some (x, y))) :
    ∃ big, decG2Affine big x.1 x.2 = some (some (x, y)) := by
  cases bs with
  | nil => exact absurd h (by simp [decG2])
  | cons b0 rest =>
    unfold decG2 at h
    dsimp only at h
    by_cases h1 : rest.length ≠ 95
    · rw [if_pos h1] at h; exact absurd h (by simp)
    · rw [if_neg h1] at h
      by_cases h2 : b0.toNat / 128 = 0
      · rw [if_pos h2] at h; exact absurd h (by simp)
      · rw [if_neg h2] at h
        by_cases h3 : b0.toNat / 64 % 2 = 1
        · rw [if_pos h3] at h
          by_cases h4 : b0.toNat = 0xc0 ∧ rest.all (· == 0) = true
          · rw [if_pos h4] at h
            have := Option.some.inj h
            exact absurd this (by simp)
          · rw [if_neg h4] at h; exact absurd h (by simp)
        · rw [if_neg h3] at h
          obtain ⟨_, _, y0, _, hP, _⟩ := decG2Affine_some _ _ _ _ h
          have hx : x = (decodeBE (rest.drop 47), decodeBE (UInt8.ofNat (b0.toNat % 32) :: rest.take 47)) :=
            (Prod.mk.inj (Option.some.inj hP)).1
          refine ⟨(b0.toNat / 32 % 2 == 1), ?_⟩
          subst hx
          exact h

/-- **Re-encoding an accepted value decodes to it.** -/
theorem decG2_enc (bs : Bytes) (P : Fp2.Pt) (h : decG2 bs = some P) : decG2 (encG2 P) = some P := by
  cases P with
  | none => decide +kernel
  | some xy =>
    obtain ⟨x, y⟩ := xy
    obtain ⟨big, ha⟩ := decG2_some_affine bs x y h
    obtain ⟨hxi, hxr, y0, hs, hP, hr⟩ := decG2Affine_some big x.1 x.2 _ ha
    have hy : y = selectRoot big y0 := (Prod.mk.inj (Option.some.inj hP)).2
    obtain ⟨hred, _⟩ := sqrtFp2_sound _ _ hs
    have hx48 : x.1 < 256 ^ 48 := by have := p_lt32; omega
    rw [encG2_some x y hxi, decG2_compressed x.1 x.2 hxi (largerRoot y), decodeBE_encodeBE_of_lt 48 x.1 hx48]
    have hfix : selectRoot (largerRoot y) y0 = y := by rw [hy]; exact selectRoot_fix big y0 hred
    have hr' : Fp2.smul twist r (some ((x.1, x.2), selectRoot (largerRoot y) y0)) = none := by
      rw [hfix]; exact hr
    rw [decG2Affine_of (largerRoot y) x.1 x.2 y0 hxi hxr hs hr', hfix]

end Kyber.BlsG2Dec
