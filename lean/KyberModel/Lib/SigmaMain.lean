import KyberModel.Lib.SigmaTop
/-
C14 helper lemmas, part 6: `hashProve` / `hashVerify` (and the interactive `dProve` / `dVerify`) on a
single scope and on an `Or` of scopes, reduced to the per-Rep verification equations.
-/
namespace Kyber.Sigma
open Kyber Kyber.Scalar

/-- The Fiat–Shamir challenge after the first prover message `M1` (the commitments). -/
def chal (E : Params) (M1 : Bytes) : Nat := E.O E.name (if M1.isEmpty then [] else [M1]) 0 % E.q

theorem chal_lt (E : Params) (hq : 0 < E.q) (M1 : Bytes) : chal E M1 < E.q := Nat.mod_lt _ hq

theorem PCtx.round1 (E : Params) (st : PCtx) (M1 : Bytes)
    (h : st = { PCtx.init with k := st.k, msg := M1 }) :
    (st.pubRand E).1 = chal E M1 ∧ (st.pubRand E).2.msg = [] ∧ (st.pubRand E).2.proof = M1 := by
  rw [h]
  unfold PCtx.pubRand PCtx.consume chal PCtx.init
  by_cases hm : M1.isEmpty
  · have : M1 = [] := List.isEmpty_iff.mp hm
    subst this
    simp
  · simp [hm]

theorem PCtx.finish_put (st : PCtx) (M2 : Bytes) (h : st.msg = []) :
    (st.put M2).finish = st.proof ++ M2 := by
  unfold PCtx.finish PCtx.consume PCtx.put
  rw [h]
  by_cases hm : M2.isEmpty
  · have : M2 = [] := List.isEmpty_iff.mp hm
    subst this
    simp
  · simp [hm]

theorem VCtx.round1 (E : Params) (st : VCtx) (M1 : Bytes) (h1 : st.pend = M1) (h2 : st.hist = [])
    (h3 : st.pos = 0) :
    (st.pubRand E).1 = chal E M1 ∧ (st.pubRand E).2.rest = st.rest := by
  obtain ⟨rest, pend, hist, pos⟩ := st
  simp only at h1 h2 h3
  subst h1 h2 h3
  unfold VCtx.pubRand VCtx.consume chal
  by_cases hm : pend.isEmpty
  · simp [hm]
  · simp [hm]

/-- The verifier's parameters: same group, encoding and variable order; possibly another protocol
    name / oracle and other public points. -/
def Params.verifier (E : Params) (name : Bytes) (O : Oracle) (pval : Nat → Nat) : Params :=
  { E with name := name, O := O, pval := pval }

theorem forall₂_imp_mem {α β : Type} {R S : α → β → Prop} :
    ∀ (l : List α) (l' : List β), (∀ a ∈ l, ∀ b, R a b → S a b) → List.Forall₂ R l l' → List.Forall₂ S l l' := by
  intro l l' h hf
  induction hf with
  | nil => exact List.Forall₂.nil
  | cons hd _ ih =>
    exact List.Forall₂.cons (h _ (List.mem_cons_self ..) _ hd)
      (ih (fun a ha b hab => h a (List.mem_cons_of_mem _ ha) b hab))

theorem mem_vars_of_term {sc : Scope} {rp : RepS} {t : Term} (hrp : rp ∈ sc.reps) (ht : t ∈ rp.ts) :
    t.s ∈ sc.vars := by
  simp only [Scope.vars, repsVars, List.mem_flatMap]
  exact ⟨rp, hrp, by simp only [termVars, List.mem_map]; exact ⟨t, ht, rfl⟩⟩

/-- Checks of a non-obligated scope hold for its own pre-challenge, whatever the statement. -/
theorem scopeChecks_simulated (E : Params) (sval : Nat → Nat) (sc : Scope) (d : ScopeData) (w : Nat)
    (h : ScopeCommitted E sc d) (hw : d.w = some w) : ScopeChecks E sval sc d w w := by
  obtain ⟨ds, h1, h2, _, _, _⟩ := h
  unfold ScopeChecks
  rw [h2, List.forall₂_map_right_iff]
  refine forall₂_imp_mem _ _ ?_ h1
  intro rp hrp x hx
  obtain ⟨_, _, hsum⟩ := hx
  apply repChecks_simulated E w d.vf _ rp x.2
  · rw [← hw]; exact hsum d.vf (Vec.le_refl _)
  · intro t ht
    simp [respVec, mem_vars_of_term hrp ht, ScopeData.resp, target, hw]

/-- Checks of the proof-obligated scope: the honest responses for challenge `c`, verified under
    challenge `c'`, pass iff `c'·P = c·Σ x·B` for every Rep. -/
theorem scopeChecks_obligated (E : Params) (hq : 0 < E.q) (sval : Nat → Nat) (sc : Scope) (d : ScopeData)
    (c c' : Nat) (h : ScopeCommitted E sc d) (hw : d.w = none) :
    ScopeChecks E sval sc d c c' ↔
      ∀ rp ∈ sc.reps, (c' : ZMod E.q) * (E.pval rp.p : ZMod E.q) =
        (c : ZMod E.q) * linComb E.q E.pval (fun s => (sval s : ZMod E.q)) rp.ts := by
  obtain ⟨ds, h1, h2, _, _, _⟩ := h
  unfold ScopeChecks
  rw [h2, List.forall₂_map_right_iff]
  have key : ∀ rp ∈ sc.reps, ∀ x : PP × Nat, RepCommitted E d.w d.vf rp x →
      (RepChecks E c' (respVec E.q sval sc d c) rp x.2 ↔
        (c' : ZMod E.q) * (E.pval rp.p : ZMod E.q) =
          (c : ZMod E.q) * linComb E.q E.pval (fun s => (sval s : ZMod E.q)) rp.ts) := by
    intro rp hrp x hx
    obtain ⟨_, _, hsum⟩ := hx
    apply repChecks_obligated E hq sval c c' d.vf _ rp x.2
    · rw [← hw]; exact hsum d.vf (Vec.le_refl _)
    · intro t ht
      simp [respVec, mem_vars_of_term hrp ht, ScopeData.resp, target, hw]
  -- turn the Forall₂ over (reps, ds) into a statement over reps alone
  have : ∀ (rs : List RepS) (ds : List (PP × Nat)), (∀ rp ∈ rs, rp ∈ sc.reps) →
      List.Forall₂ (RepCommitted E d.w d.vf) rs ds →
      (List.Forall₂ (fun rp x => RepChecks E c' (respVec E.q sval sc d c) rp x.2) rs ds ↔
        ∀ rp ∈ rs, (c' : ZMod E.q) * (E.pval rp.p : ZMod E.q) =
          (c : ZMod E.q) * linComb E.q E.pval (fun s => (sval s : ZMod E.q)) rp.ts) := by
    intro rs ds' hsub hf
    induction hf with
    | nil => simp
    | @cons rp x rs' ds'' hd _ ih =>
      have k := key rp (hsub rp (List.mem_cons_self ..)) x hd
      have ih' := ih (fun r hr => hsub r (List.mem_cons_of_mem _ hr))
      constructor
      · intro hf'
        cases hf' with
        | cons a b =>
          intro r hr
          rcases List.mem_cons.mp hr with rfl | hr
          · exact k.mp a
          · exact ih'.mp b r hr
      · intro hall
        exact List.Forall₂.cons (k.mpr (hall rp (List.mem_cons_self ..)))
          (ih'.mpr (fun r hr => hall r (List.mem_cons_of_mem _ hr)))
  exact this sc.reps ds (fun _ h => h) h1

/-! ### A single scope at top level (`Rep` or `And` of `Rep`s) -/

theorem hashVerify_iff (E : Params) (p : Pred) (proof : Bytes) :
    hashVerify E p proof = .ok () ↔
      ∃ st vp r st', getCommits E p none (VCtx.init proof) = .ok (st, vp, r) ∧
        verify E p vp (st.pubRand E).1 none (st.pubRand E).2 = .ok st' := by
  unfold hashVerify
  cases hg : getCommits E p none (VCtx.init proof) with
  | error e => simp
  | ok res =>
    obtain ⟨st, vp, r⟩ := res
    simp only
    cases hv : verify E p vp (st.pubRand E).1 none (st.pubRand E).2 with
    | error e => simp [hv]
    | ok st' => simp [hv]

theorem dVerify_iff (E : Params) (p : Pred) (m1 m2 : Bytes) (c : Nat) :
    dVerify E p m1 m2 c = .ok () ↔
      ∃ st vp r st', getCommits E p none (VCtx.init m1) = .ok (st, vp, r) ∧
        verify E p vp c none { st with rest := m2 } = .ok st' := by
  unfold dVerify
  cases hg : getCommits E p none (VCtx.init m1) with
  | error e => simp
  | ok res =>
    obtain ⟨st, vp, r⟩ := res
    simp only
    cases hv : verify E p vp c none { st with rest := m2 } with
    | error e => simp [hv]
    | ok st' => simp [hv]

theorem hashVerify_scope (E : Params) (hq : 0 < E.q) (hc : E.cd.Lawful E.q) (sval : Nat → Nat)
    (sc : Scope) (d : ScopeData) (c0 : Nat) (tl : Bytes) (hshape : ScopeShape E.q sc d)
    (hsv : ∀ s ∈ sc.vars, s ∈ E.sv) :
    hashVerify E sc.toPred (encPs E.cd d.Vs ++
        (encSs E.cd (E.sv.filterMap (respVec E.q sval sc d c0)) ++ tl)) = .ok () ↔
      ScopeChecks E sval sc d c0 (chal E (encPs E.cd d.Vs)) := by
  rw [hashVerify_iff]
  have hg := getCommits_scope E hc sc d.Vs
    (VCtx.init (encPs E.cd d.Vs ++ (encSs E.cd (E.sv.filterMap (respVec E.q sval sc d c0)) ++ tl)))
    (encSs E.cd (E.sv.filterMap (respVec E.q sval sc d c0)) ++ tl) hshape.1 hshape.2.1 rfl
  simp only [VCtx.init, List.nil_append] at hg
  simp only [VCtx.init]
  rw [hg]
  obtain ⟨v1, v2⟩ := VCtx.round1 E
    (⟨encSs E.cd (E.sv.filterMap (respVec E.q sval sc d c0)) ++ tl, encPs E.cd d.Vs, [], 0⟩ : VCtx)
    (encPs E.cd d.Vs) rfl rfl rfl
  constructor
  · rintro ⟨st, vp, r, st', h1, h2⟩
    simp only [Except.ok.injEq, Prod.mk.injEq] at h1
    obtain ⟨rfl, rfl, rfl⟩ := h1
    rw [v1] at h2
    exact ((verify_scope_honest E hc hq sval sc d c0 _ _ st' tl hshape hsv v2).mp h2).2
  · intro hchk
    have := (verify_scope_honest E hc hq sval sc d c0 (chal E (encPs E.cd d.Vs)) _ _ tl hshape hsv v2).mpr ⟨rfl, hchk⟩
    rw [← v1] at this
    exact ⟨_, _, _, _, rfl, this⟩

theorem dVerify_scope (E : Params) (hq : 0 < E.q) (hc : E.cd.Lawful E.q) (sval : Nat → Nat)
    (sc : Scope) (d : ScopeData) (c0 c' : Nat) (tl : Bytes) (hshape : ScopeShape E.q sc d)
    (hsv : ∀ s ∈ sc.vars, s ∈ E.sv) :
    dVerify E sc.toPred (encPs E.cd d.Vs)
        (encSs E.cd (E.sv.filterMap (respVec E.q sval sc d c0)) ++ tl) c' = .ok () ↔
      ScopeChecks E sval sc d c0 c' := by
  rw [dVerify_iff]
  have hg := getCommits_scope E hc sc d.Vs (VCtx.init (encPs E.cd d.Vs)) [] hshape.1 hshape.2.1
    (by simp [VCtx.init])
  simp only [VCtx.init, List.nil_append] at hg
  simp only [VCtx.init]
  rw [hg]
  constructor
  · rintro ⟨st, vp, r, st', h1, h2⟩
    simp only [Except.ok.injEq, Prod.mk.injEq] at h1
    obtain ⟨rfl, rfl, rfl⟩ := h1
    exact ((verify_scope_honest E hc hq sval sc d c0 c' _ st' tl hshape hsv rfl).mp h2).2
  · intro hchk
    have := (verify_scope_honest E hc hq sval sc d c0 c'
      (⟨encSs E.cd (E.sv.filterMap (respVec E.q sval sc d c0)) ++ tl, encPs E.cd d.Vs, [], 0⟩ : VCtx)
      _ tl hshape hsv rfl).mpr ⟨rfl, hchk⟩
    exact ⟨_, _, _, _, rfl, this⟩

theorem scope_master (E : Params) (hq : 0 < E.q) (hc : E.cd.Lawful E.q) (sval rnd : Nat → Nat)
    (sc : Scope) (ch : List Nat) (hsv : ∀ s ∈ sc.vars, s ∈ E.sv) :
    ∃ d : ScopeData, ScopeCommitted E sc d ∧ d.w = none ∧
      proveChallenge E rnd sc.toPred ch = .ok (chal E (encPs E.cd d.Vs)) ∧
      hashProve E sval rnd sc.toPred ch = .ok (encPs E.cd d.Vs ++
        encSs E.cd (E.sv.filterMap (respVec E.q sval sc d (chal E (encPs E.cd d.Vs))))) ∧
      (∀ c, dProve E sval rnd sc.toPred ch c = .ok (encPs E.cd d.Vs,
        encSs E.cd (E.sv.filterMap (respVec E.q sval sc d c)))) ∧
      (∀ (name : Bytes) (O : Oracle) (pval : Nat → Nat) (c0 : Nat) (tl : Bytes),
        (hashVerify (E.verifier name O pval) sc.toPred (encPs E.cd d.Vs ++
            (encSs E.cd (E.sv.filterMap (respVec E.q sval sc d c0)) ++ tl)) = .ok () ↔
          ScopeChecks (E.verifier name O pval) sval sc d c0 (chal (E.verifier name O pval) (encPs E.cd d.Vs)))) ∧
      (∀ (name : Bytes) (O : Oracle) (pval : Nat → Nat) (c0 c' : Nat) (tl : Bytes),
        (dVerify (E.verifier name O pval) sc.toPred (encPs E.cd d.Vs)
            (encSs E.cd (E.sv.filterMap (respVec E.q sval sc d c0)) ++ tl) c' = .ok () ↔
          ScopeChecks (E.verifier name O pval) sval sc d c0 c')) := by
  obtain ⟨d, st1, hw, hcm, hst1, hsc⟩ := commit_scope E rnd hq sc none ch PCtx.init
  have hst1' : st1 = { PCtx.init with k := st1.k, msg := encPs E.cd d.Vs } := by
    rw [hst1]; simp [PCtx.init]
  obtain ⟨r1, r2, r3⟩ := PCtx.round1 E st1 _ hst1'
  refine ⟨d, hsc, hw, ?_, ?_, ?_, ?_, ?_⟩
  · simp only [proveChallenge, hcm, r1]
  · obtain ⟨rf, h1, h2⟩ := respond_scope E sval sc d (chal E (encPs E.cd d.Vs)) ch (st1.pubRand E).2 hsc
    have hrf : rf = respVec E.q sval sc d (chal E (encPs E.cd d.Vs)) := funext h2
    simp only [hashProve, hcm, r1, h1, PCtx.finish_put _ _ r2, r3, hrf]
  · intro c
    obtain ⟨rf, h1, h2⟩ := respond_scope E sval sc d c ch { st1 with msg := [] } hsc
    have hrf : rf = respVec E.q sval sc d c := funext h2
    have hmsg : st1.msg = encPs E.cd d.Vs := by rw [hst1']
    simp only [dProve, hcm, h1, hrf, hmsg, PCtx.put, List.nil_append]
  · intro name O pval c0 tl
    exact hashVerify_scope (E.verifier name O pval) hq hc sval sc d c0 tl hsc.shape hsv
  · intro name O pval c0 c' tl
    exact dVerify_scope (E.verifier name O pval) hq hc sval sc d c0 c' tl hsc.shape hsv

end Kyber.Sigma
