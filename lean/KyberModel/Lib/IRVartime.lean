import KyberModel.Lib.IREdwards
/-
IR theorems for `group/edwards25519vartime` (proj.go, ext.go; regenerated from the source):
general twisted Edwards parameters `a`, `d` read from the curve object. Includes the aliasing
patterns the Go API allows (receiver = first / second / both operands): the same specification holds
when parameter bases are identified (C05).
-/
namespace Kyber.IR.Vt
open Kyber.IR Kyber.IR.Gen Kyber.EdLaw Kyber.IR.Ed

variable {F : Type} [Field F]

/-- the store holds the curve parameters where the code reads them -/
structure Params (a d : F) (s : Loc → F) : Prop where
  ha : s ⟨B_P_c_curve_a, 0⟩ = a
  hd : s ⟨B_P_c_curve_d, 0⟩ = d

/-! ### Projective coordinates (proj.go) -/

/-- EFD add-2008-bbjlp as coded, on raw coordinates. -/
def pAddX (d X1 Y1 Z1 X2 Y2 Z2 : F) : F :=
  Z1 * Z2 * ((Z1 * Z2 * (Z1 * Z2) - d * (X1 * X2 * (Y1 * Y2))) * ((X1 + Y1) * (X2 + Y2) - X1 * X2 - Y1 * Y2))
def pAddY (a d X1 Y1 Z1 X2 Y2 Z2 : F) : F :=
  Z1 * Z2 * ((Z1 * Z2 * (Z1 * Z2) + d * (X1 * X2 * (Y1 * Y2))) * (Y1 * Y2 - a * (X1 * X2)))
def pAddZ (d X1 Y1 Z1 X2 Y2 Z2 : F) : F :=
  (Z1 * Z2 * (Z1 * Z2) - d * (X1 * X2 * (Y1 * Y2))) * (Z1 * Z2 * (Z1 * Z2) + d * (X1 * X2 * (Y1 * Y2)))

/-- The coded projective addition represents Edwards addition. -/
theorem pAdd_core {a d : F} (hc : Complete a d) {x1 y1 x2 y2 Z1 Z2 : F}
    (h1 : OnCurve a d x1 y1) (h2 : OnCurve a d x2 y2) (hz1 : Z1 ≠ 0) (hz2 : Z2 ≠ 0) :
    pAddZ d (x1 * Z1) (y1 * Z1) Z1 (x2 * Z2) (y2 * Z2) Z2 ≠ 0
    ∧ pAddX d (x1 * Z1) (y1 * Z1) Z1 (x2 * Z2) (y2 * Z2) Z2
        = addX d x1 y1 x2 y2 * pAddZ d (x1 * Z1) (y1 * Z1) Z1 (x2 * Z2) (y2 * Z2) Z2
    ∧ pAddY a d (x1 * Z1) (y1 * Z1) Z1 (x2 * Z2) (y2 * Z2) Z2
        = addY a d x1 y1 x2 y2 * pAddZ d (x1 * Z1) (y1 * Z1) Z1 (x2 * Z2) (y2 * Z2) Z2 := by
  have hA := one_add_ne_zero hc h1 h2
  have hB := one_sub_ne_zero hc h1 h2
  have hZ : pAddZ d (x1 * Z1) (y1 * Z1) Z1 (x2 * Z2) (y2 * Z2) Z2
      = (Z1 * Z2) ^ 4 * ((1 - d * x1 * x2 * y1 * y2) * (1 + d * x1 * x2 * y1 * y2)) := by
    unfold pAddZ; ring
  have hzz : (Z1 * Z2) ^ 4 ≠ 0 := pow_ne_zero 4 (mul_ne_zero hz1 hz2)
  refine ⟨?_, ?_, ?_⟩
  · rw [hZ]; exact mul_ne_zero hzz (mul_ne_zero hB hA)
  · rw [hZ]; unfold pAddX addX
    obtain ⟨U, hU⟩ : ∃ U, U = 1 + d * x1 * x2 * y1 * y2 := ⟨_, rfl⟩
    rw [← hU] at hA ⊢
    field_simp
    ring
  · rw [hZ]; unfold pAddY addY
    obtain ⟨V, hV⟩ : ∃ V, V = 1 - d * x1 * x2 * y1 * y2 := ⟨_, rfl⟩
    rw [← hV] at hB ⊢
    field_simp

set_option maxRecDepth 8000 in
/-- What `projPoint.Add` leaves in the receiver, for ANY identification `σ` of the bases CP1, CP2 with P
    (σ = id: distinct objects; the aliasing patterns are instances below). -/
theorem proj_Add_vals (s : Loc → F) (b1 b2 : Nat) (hb1 : b1 = B_CP1 ∨ b1 = B_P) (hb2 : b2 = B_CP2 ∨ b2 = B_P) :
    let σ : Nat → Nat := fun b => if b = B_CP1 then b1 else if b = B_CP2 then b2 else b
    let out := R (substProg σ vt_proj_Add) s
    let dd := s ⟨B_P_c_curve_d, 0⟩
    let aa := s ⟨B_P_c_curve_a, 0⟩
    out ⟨B_P, F_X⟩ = pAddX dd (s ⟨b1, F_X⟩) (s ⟨b1, F_Y⟩) (s ⟨b1, F_Z⟩) (s ⟨b2, F_X⟩) (s ⟨b2, F_Y⟩) (s ⟨b2, F_Z⟩)
    ∧ out ⟨B_P, F_Y⟩ = pAddY aa dd (s ⟨b1, F_X⟩) (s ⟨b1, F_Y⟩) (s ⟨b1, F_Z⟩) (s ⟨b2, F_X⟩) (s ⟨b2, F_Y⟩) (s ⟨b2, F_Z⟩)
    ∧ out ⟨B_P, F_Z⟩ = pAddZ dd (s ⟨b1, F_X⟩) (s ⟨b1, F_Y⟩) (s ⟨b1, F_Z⟩) (s ⟨b2, F_X⟩) (s ⟨b2, F_Y⟩) (s ⟨b2, F_Z⟩) := by
  intro σ out dd aa
  rcases hb1 with rfl | rfl <;> rcases hb2 with rfl | rfl <;>
    (refine ⟨?_, ?_, ?_⟩ <;>
      simp [out, σ, dd, aa, run, vt_proj_Add, substProg, substInstr, substLoc, step, evalOp, ringOps,
        pAddX, pAddY, pAddZ])

/-- `projPoint.Add` realises Edwards addition on representatives — also when the receiver is one or both
    of the operands (aliasing safe). -/
theorem proj_Add_rep {a d : F} (hc : Complete a d) (s : Loc → F) {x1 y1 x2 y2 : F}
    (b1 b2 : Nat) (hb1 : b1 = B_CP1 ∨ b1 = B_P) (hb2 : b2 = B_CP2 ∨ b2 = B_P)
    (hpar : Params a d s) (h1 : OnCurve a d x1 y1) (h2 : OnCurve a d x2 y2)
    (hp : ProjRep s b1 x1 y1) (hq : ProjRep s b2 x2 y2) :
    ProjRep (R (substProg (fun b => if b = B_CP1 then b1 else if b = B_CP2 then b2 else b) vt_proj_Add) s) B_P
      (addX d x1 y1 x2 y2) (addY a d x1 y1 x2 y2) := by
  obtain ⟨vx, vy, vz⟩ := proj_Add_vals s b1 b2 hb1 hb2
  obtain ⟨hz, hx, hy⟩ := pAdd_core hc h1 h2 hp.hz hq.hz
  refine ⟨?_, ?_, ?_⟩
  · rw [vz, hpar.hd, hp.hx, hp.hy, hq.hx, hq.hy]; exact hz
  · rw [vx, vz, hpar.hd, hp.hx, hp.hy, hq.hx, hq.hy]; exact hx
  · rw [vy, vz, hpar.hd, hpar.ha, hp.hx, hp.hy, hq.hx, hq.hy]; exact hy

/-! ### In-place projective doubling (dbl-2008-bbjlp) -/

def pDblX (a X Y Z : F) : F := ((X + Y) * (X + Y) - X * X - Y * Y) * (a * (X * X) + Y * Y - (Z * Z + Z * Z))
def pDblY (a X Y : F) : F := (a * (X * X) + Y * Y) * (a * (X * X) - Y * Y)
def pDblZ (a X Y Z : F) : F := (a * (X * X) + Y * Y) * (a * (X * X) + Y * Y - (Z * Z + Z * Z))

set_option maxRecDepth 8000 in
theorem proj_double_vals (s : Loc → F) :
    R vt_proj_double s ⟨B_P, F_X⟩ = pDblX (s ⟨B_P_c_curve_a, 0⟩) (s ⟨B_P, F_X⟩) (s ⟨B_P, F_Y⟩) (s ⟨B_P, F_Z⟩)
    ∧ R vt_proj_double s ⟨B_P, F_Y⟩ = pDblY (s ⟨B_P_c_curve_a, 0⟩) (s ⟨B_P, F_X⟩) (s ⟨B_P, F_Y⟩)
    ∧ R vt_proj_double s ⟨B_P, F_Z⟩ = pDblZ (s ⟨B_P_c_curve_a, 0⟩) (s ⟨B_P, F_X⟩) (s ⟨B_P, F_Y⟩) (s ⟨B_P, F_Z⟩) := by
  refine ⟨?_, ?_, ?_⟩ <;>
    simp [R, run, vt_proj_double, step, evalOp, ringOps, pDblX, pDblY, pDblZ] <;> ring

/-- `projPoint.double` (which overwrites its own coordinates while still reading them) realises `P + P`. -/
theorem proj_double_rep {a d : F} (hc : Complete a d) (s : Loc → F) {x y : F}
    (hpar : Params a d s) (h1 : OnCurve a d x y) (hp : ProjRep s B_P x y) :
    ProjRep (R vt_proj_double s) B_P (addX d x y x y) (addY a d x y x y) := by
  obtain ⟨vx, vy, vz⟩ := proj_double_vals s
  have hA := one_add_ne_zero hc h1 h1
  have hB := one_sub_ne_zero hc h1 h1
  unfold OnCurve at h1
  set Z := s ⟨B_P, F_Z⟩ with hZdef
  have hZ : Z ≠ 0 := hp.hz
  have e1 : a * (x * Z * (x * Z)) + y * Z * (y * Z) = Z ^ 2 * (1 + d * x * x * y * y) := by
    linear_combination (Z ^ 2) * h1
  have e2 : a * (x * Z * (x * Z)) + y * Z * (y * Z) - (Z * Z + Z * Z) = -(Z ^ 2 * (1 - d * x * x * y * y)) := by
    linear_combination (Z ^ 2) * h1
  have hz2 : Z ^ 2 ≠ 0 := pow_ne_zero 2 hZ
  have hzv : pDblZ a (x * Z) (y * Z) Z = -(Z ^ 4 * ((1 + d * x * x * y * y) * (1 - d * x * x * y * y))) := by
    unfold pDblZ; rw [e2, e1]; ring
  refine ⟨?_, ?_, ?_⟩
  · rw [vz, hpar.ha, hp.hx, hp.hy, hzv]
    exact neg_ne_zero.mpr (mul_ne_zero (pow_ne_zero 4 hZ) (mul_ne_zero hA hB))
  · rw [vx, vz, hpar.ha, hp.hx, hp.hy, hzv]
    unfold pDblX; rw [e2]
    unfold addX
    obtain ⟨U, hU⟩ : ∃ U, U = 1 + d * x * x * y * y := ⟨_, rfl⟩
    rw [← hU] at hA ⊢
    field_simp
    ring
  · rw [vy, vz, hpar.ha, hp.hx, hp.hy, hzv]
    unfold pDblY; rw [e1]
    unfold addY
    obtain ⟨V, hV⟩ : ∃ V, V = 1 - d * x * x * y * y := ⟨_, rfl⟩
    rw [← hV] at hB ⊢
    field_simp
    ring

/-! ### Extended coordinates (ext.go) -/

def eAddE (X1 Y1 X2 Y2 : F) : F := (X1 + Y1) * (X2 + Y2) - X1 * X2 - Y1 * Y2
def eAddF (d Z1 T1 Z2 T2 : F) : F := Z1 * Z2 - T1 * T2 * d
def eAddG (d Z1 T1 Z2 T2 : F) : F := Z1 * Z2 + T1 * T2 * d
def eAddH (a X1 Y1 X2 Y2 : F) : F := Y1 * Y2 - a * (X1 * X2)

set_option maxRecDepth 8000 in
/-- What `extPoint.Add` leaves in the receiver for every aliasing pattern of receiver and operands:
    it writes `P.X … P.Z` only after all reads of the operands. -/
theorem ext_Add_vals (s : Loc → F) (b1 b2 : Nat) (hb1 : b1 = B_CP1 ∨ b1 = B_P) (hb2 : b2 = B_CP2 ∨ b2 = B_P) :
    let σ : Nat → Nat := fun b => if b = B_CP1 then b1 else if b = B_CP2 then b2 else b
    let out := R (substProg σ vt_ext_Add) s
    let dd := s ⟨B_P_c_curve_d, 0⟩
    let aa := s ⟨B_P_c_curve_a, 0⟩
    let E := eAddE (s ⟨b1, F_X⟩) (s ⟨b1, F_Y⟩) (s ⟨b2, F_X⟩) (s ⟨b2, F_Y⟩)
    let Fv := eAddF dd (s ⟨b1, F_Z⟩) (s ⟨b1, F_T⟩) (s ⟨b2, F_Z⟩) (s ⟨b2, F_T⟩)
    let G := eAddG dd (s ⟨b1, F_Z⟩) (s ⟨b1, F_T⟩) (s ⟨b2, F_Z⟩) (s ⟨b2, F_T⟩)
    let H := eAddH aa (s ⟨b1, F_X⟩) (s ⟨b1, F_Y⟩) (s ⟨b2, F_X⟩) (s ⟨b2, F_Y⟩)
    out ⟨B_P, F_X⟩ = E * Fv ∧ out ⟨B_P, F_Y⟩ = G * H ∧ out ⟨B_P, F_T⟩ = E * H ∧ out ⟨B_P, F_Z⟩ = Fv * G := by
  intro σ out dd aa E Fv G H
  rcases hb1 with rfl | rfl <;> rcases hb2 with rfl | rfl <;>
    (refine ⟨?_, ?_, ?_, ?_⟩ <;>
      simp [out, σ, dd, aa, E, Fv, G, H, run, vt_ext_Add, substProg, substInstr, substLoc, step, evalOp, ringOps,
        eAddE, eAddF, eAddG, eAddH])

/-- `extPoint.Add` realises Edwards addition on extended representatives, aliasing-safe. -/
theorem ext_Add_rep {a d : F} (hc : Complete a d) (s : Loc → F) {x1 y1 x2 y2 : F}
    (b1 b2 : Nat) (hb1 : b1 = B_CP1 ∨ b1 = B_P) (hb2 : b2 = B_CP2 ∨ b2 = B_P)
    (hpar : Params a d s) (h1 : OnCurve a d x1 y1) (h2 : OnCurve a d x2 y2)
    (hp : ExtRep s b1 x1 y1) (hq : ExtRep s b2 x2 y2) :
    ExtRep (R (substProg (fun b => if b = B_CP1 then b1 else if b = B_CP2 then b2 else b) vt_ext_Add) s) B_P
      (addX d x1 y1 x2 y2) (addY a d x1 y1 x2 y2) := by
  obtain ⟨vx, vy, vt, vz⟩ := ext_Add_vals s b1 b2 hb1 hb2
  have hA := one_add_ne_zero hc h1 h2
  have hB := one_sub_ne_zero hc h1 h2
  set Z1 := s ⟨b1, F_Z⟩
  set Z2 := s ⟨b2, F_Z⟩
  have hE : eAddE (x1 * Z1) (y1 * Z1) (x2 * Z2) (y2 * Z2) = Z1 * Z2 * (x1 * y2 + y1 * x2) := by
    unfold eAddE; ring
  have hF : eAddF d Z1 (x1 * y1 * Z1) Z2 (x2 * y2 * Z2) = Z1 * Z2 * (1 - d * x1 * x2 * y1 * y2) := by
    unfold eAddF; ring
  have hG : eAddG d Z1 (x1 * y1 * Z1) Z2 (x2 * y2 * Z2) = Z1 * Z2 * (1 + d * x1 * x2 * y1 * y2) := by
    unfold eAddG; ring
  have hH : eAddH a (x1 * Z1) (y1 * Z1) (x2 * Z2) (y2 * Z2) = Z1 * Z2 * (y1 * y2 - a * x1 * x2) := by
    unfold eAddH; ring
  have hzz : Z1 * Z2 ≠ 0 := mul_ne_zero hp.hz hq.hz
  refine ⟨?_, ?_, ?_, ?_⟩
  · rw [vz, hpar.hd, hp.ht, hq.ht, hF, hG]
    exact mul_ne_zero (mul_ne_zero hzz hB) (mul_ne_zero hzz hA)
  · rw [vx, vz, hpar.hd, hp.hx, hp.hy, hq.hx, hq.hy, hp.ht, hq.ht, hE, hF, hG]
    unfold addX
    obtain ⟨U, hU⟩ : ∃ U, U = 1 + d * x1 * x2 * y1 * y2 := ⟨_, rfl⟩
    rw [← hU] at hA ⊢
    field_simp
  · rw [vy, vz, hpar.hd, hpar.ha, hp.hx, hp.hy, hq.hx, hq.hy, hp.ht, hq.ht, hF, hG, hH]
    unfold addY
    obtain ⟨V, hV⟩ : ∃ V, V = 1 - d * x1 * x2 * y1 * y2 := ⟨_, rfl⟩
    rw [← hV] at hB ⊢
    field_simp
  · rw [vt, vz, hpar.hd, hpar.ha, hp.hx, hp.hy, hq.hx, hq.hy, hp.ht, hq.ht, hE, hF, hG, hH]
    unfold addX addY
    obtain ⟨U, hU⟩ : ∃ U, U = 1 + d * x1 * x2 * y1 * y2 := ⟨_, rfl⟩
    obtain ⟨V, hV⟩ : ∃ V, V = 1 - d * x1 * x2 * y1 * y2 := ⟨_, rfl⟩
    rw [← hU] at hA ⊢
    rw [← hV] at hB ⊢
    field_simp

end Kyber.IR.Vt
