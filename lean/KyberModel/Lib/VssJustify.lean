import KyberModel.Props.C10
/-
An honest dealer is not disqualified by complaints it answers (C10/C11, both VSS variants): once every verifier has
responded — approvals and (false) complaints alike — and the dealer's justifications, each revealing the honest deal of
the complaining verifier under the dealer's signature, have been processed for all complaining indices (any order,
duplicates, also for indices that never complained), every slot is approved and the deal is certified.
-/
namespace Kyber.Vss
open Kyber.Scalar Kyber.Share

/-- The aggregator of a verifier that holds the honest dealer's deal: `Good` without "approvals only". -/
structure Pre (cfg : Cfg) (t sid : Nat) (a : Agg) : Prop where
  bad : a.badDealer = false
  tmo : a.timeout = false
  t : a.t = t
  sid : a.sid = some sid
  deal : a.deal.isSome = true
  inv : Inv cfg a

/-- The honest justification for index `j`. -/
def justOp (cfg : Cfg) (sid t : Nat) (f g : List Nat) (j : Nat) : Op :=
  .justification j true (honestDeal cfg sid t f g j)

theorem verifyDeal_honest (cfg : Cfg) (hq : 0 < cfg.q) (t sid : Nat) (f g : List Nat)
    (hlen : cfg.variant = .rabin → f.length = g.length) (hT : validT t cfg.n = true) (a : Agg) (hp : Pre cfg t sid a)
    (j : Nat) (hj : j < cfg.n) :
    verifyDeal cfg a (honestDeal cfg sid t f g j) false = (a, none) := by
  obtain ⟨dl, hdl⟩ : ∃ dl, a.deal = some dl := by
    cases hd : a.deal with
    | none => have := hp.deal; rw [hd] at this; cases this
    | some dl => exact ⟨dl, rfl⟩
  have hadopt : adopt cfg a (honestDeal cfg sid t f g j) = a := by unfold adopt; rw [hdl]
  unfold verifyDeal
  simp only [Bool.and_false, Bool.false_eq_true, if_false, hadopt]
  congr 1
  rw [checkDeal_eq_none_iff]
  refine ⟨hT, fun _ => hp.t.symm, hp.sid, fun _ => rfl, hj, honestDeal_shareOk cfg hq sid t f g hlen j⟩

/-- One honest justification: an open complaint of index `j` is lifted, everything else stays. -/
theorem justify_step (cfg : Cfg) (hq : 0 < cfg.q) (t sid : Nat) (f g : List Nat)
    (hlen : cfg.variant = .rabin → f.length = g.length) (hT : validT t cfg.n = true) (me : Nat) (a : Agg)
    (hp : Pre cfg t sid a) (j : Nat) :
    ∃ a', (step cfg ⟨.verifier me, some a⟩ (justOp cfg sid t f g j)).1 = ⟨.verifier me, some a'⟩ ∧ Pre cfg t sid a' ∧
      (∀ i, a.responses.lookup i = some true → a'.responses.lookup i = some true) ∧
      (∀ i, (a.responses.lookup i).isSome = true → (a'.responses.lookup i).isSome = true) ∧
      (a.responses.lookup j = some false → a'.responses.lookup j = some true) := by
  simp only [step, justOp]
  unfold verifyJustification
  by_cases hj : cfg.n ≤ j
  · simp only [hj, decide_true, if_true]
    refine ⟨a, rfl, hp, fun _ h => h, fun _ h => h, ?_⟩
    intro hl
    have := hp.inv.2 (j, false) (mem_of_lookup_eq_some hl)
    simp only at this; omega
  · have hjlt : j < cfg.n := by omega
    simp only [hj, decide_false, Bool.false_eq_true, if_false]
    cases hl : a.responses.lookup j with
    | none => exact ⟨a, rfl, hp, fun _ h => h, fun _ h => h, fun h => by cases h⟩
    | some b =>
      cases b with
      | true => exact ⟨a, rfl, hp, fun _ h => h, fun _ h => h, fun h => by cases h⟩
      | false =>
        simp only
        have hdi : ((honestDeal cfg sid t f g j).i != j) = false := by simp [honestDeal]
        simp only [hdi, Bool.and_false, Bool.false_eq_true, if_false,
          verifyDeal_honest cfg hq t sid f g hlen hT a hp j hjlt, Bool.not_true]
        refine ⟨_, rfl, ⟨hp.bad, hp.tmo, hp.t, hp.sid, hp.deal, inv_setApproved j hp.inv⟩, ?_, ?_, ?_⟩
        · intro i hi
          simp only [lookup_setApproved]
          by_cases hij : i = j
          · subst hij; rw [hl] at hi; cases hi
          · simp [hij, hi]
        · intro i hi
          simp only [lookup_setApproved]
          by_cases hij : i = j
          · subst hij; simp [hl]
          · simpa [hij] using hi
        · intro _
          simp only [lookup_setApproved, hl]
          simp

theorem justify_run (cfg : Cfg) (hq : 0 < cfg.q) (t sid : Nat) (f g : List Nat)
    (hlen : cfg.variant = .rabin → f.length = g.length) (hT : validT t cfg.n = true) (me : Nat) (js : List Nat) :
    ∀ (a : Agg), Pre cfg t sid a →
    ∃ a', run cfg ⟨.verifier me, some a⟩ (js.map (justOp cfg sid t f g)) = ⟨.verifier me, some a'⟩ ∧ Pre cfg t sid a' ∧
      (∀ i, a.responses.lookup i = some true → a'.responses.lookup i = some true) ∧
      (∀ i, (a.responses.lookup i).isSome = true → (a'.responses.lookup i).isSome = true) ∧
      (∀ j ∈ js, a.responses.lookup j = some false → a'.responses.lookup j = some true) := by
  induction js with
  | nil => intro a hp; exact ⟨a, rfl, hp, fun _ h => h, fun _ h => h, fun j hj => by cases hj⟩
  | cons j js ih =>
    intro a hp
    obtain ⟨a1, h1, p1, t1, s1, l1⟩ := justify_step cfg hq t sid f g hlen hT me a hp j
    obtain ⟨a2, h2, p2, t2, s2, l2⟩ := ih a1 p1
    refine ⟨a2, by simp only [List.map_cons, run_cons, h1]; exact h2, p2, fun i hi => t2 i (t1 i hi),
      fun i hi => s2 i (s1 i hi), ?_⟩
    intro j' hj' hfalse
    rcases List.mem_cons.mp hj' with rfl | hj'
    · exact t2 _ (l1 hfalse)
    · -- still a complaint after the first step, or already lifted by it
      cases hl : a1.responses.lookup j' with
      | none =>
        have := s1 j' (by rw [hfalse]; rfl)
        rw [hl] at this; cases this
      | some b =>
        cases b with
        | true => exact t2 _ hl
        | false => exact l2 j' hj' hl

/-- **Answered complaints do not disqualify an honest dealer.** Every verifier has responded (`hfull`), the dealer
justifies every complaint with the honest deal (`js` covers all complaining indices): the deal is certified. -/
theorem answered_complaints_certified (cfg : Cfg) (hq : 0 < cfg.q) (t sid : Nat) (f g : List Nat)
    (hlen : cfg.variant = .rabin → f.length = g.length) (hT : validT t cfg.n = true) (me : Nat) (a : Agg)
    (hp : Pre cfg t sid a) (hfull : ∀ i < cfg.n, (a.responses.lookup i).isSome = true)
    (js : List Nat) (hjs : ∀ i, a.responses.lookup i = some false → i ∈ js) :
    certified cfg (run cfg ⟨.verifier me, some a⟩ (js.map (justOp cfg sid t f g))) = true := by
  obtain ⟨a', hrun, hp', ht, hs, hl⟩ := justify_run cfg hq t sid f g hlen hT me js a hp
  rw [hrun]
  unfold certified
  simp only
  have hall : ∀ i < cfg.n, a'.responses.lookup i = some true := by
    intro i hi
    cases h0 : a.responses.lookup i with
    | none => have := hfull i hi; rw [h0] at this; cases this
    | some b =>
      cases b with
      | true => exact ht i h0
      | false => exact hl i (hjs i h0) h0
  have hgood : Good cfg t sid a' := by
    refine ⟨hp'.bad, hp'.tmo, hp'.t, hp'.sid, hp'.deal, ?_, hp'.inv⟩
    intro p hpm
    have hlt := hp'.inv.2 p hpm
    have hlk := lookup_eq_some_of_mem hp'.inv.1 (show (p.1, p.2) ∈ a'.responses from hpm)
    rw [hall p.1 hlt] at hlk
    exact (Option.some.inj hlk).symm
  apply good_full_certified cfg t sid a' hgood hT
  intro i hi
  exact (lookup_isSome_iff_mem_keys _ _).mp (by rw [hall i hi]; rfl)

end Kyber.Vss
