import KyberModel.Proto.Dkg
import KyberModel.Lib.DkgLemmas
import KyberModel.Lib.DkgAlgebra
/-
Helper material for the agreement part of Props/C11.lean: the concrete history on which the code as
it stands lets two honest nodes disagree, and lemmas saying which parts of a node's computation are
functions of public data only.
-/
namespace Kyber.Dkg
open Kyber.Scalar Kyber.Share

/-! ### a five-node history (q = 23, t = 3, indices 2, 5, 8, 11, 14) -/

def exNodes : List NodeId := [⟨2, 1⟩, ⟨5, 2⟩, ⟨8, 3⟩, ⟨11, 4⟩, ⟨14, 5⟩]

/-- Node `i` with secret polynomial `dp`; `fp` selects the repaired finish test. -/
def exCfg (i : Nat) (dp : List Nat) (fp : Bool) : Cfg :=
  { q := 23, oldNodes := exNodes, newNodes := exNodes, threshold := 3, oldThreshold := 0, fastSync := false, nonce := 7,
    isResharing := false, canIssue := true, canReceive := true, oidx := i, nidx := i, oldT := 0, newT := 3,
    dpriv := dp, olddpub := [], fixPhase := fp }

def dealOf (c : Cfg) : DealBundle := match deals c (initSt c) with | .ok (_, b) => b | .error _ => ⟨0, [], [], 0⟩
def stAfterDeals (c : Cfg) : St := match deals c (initSt c) with | .ok (s, _) => s | .error _ => initSt c

def ex2 := exCfg 2 [1, 2, 3]
def ex5 := exCfg 5 [4, 5, 6]
def ex8 := exCfg 8 [7, 8, 9]
def ex11 := exCfg 11 [10, 11, 12]
def ex14 := exCfg 14 [13, 14, 15]

/-- Faulty dealer 8: its honest bundle plus a deal for the unknown share index 9, at the position the
    index-sorted order gives it (between the deals of holders 5 and 11). -/
def bad8 (fp : Bool) : DealBundle :=
  let b := dealOf (ex8 fp)
  { b with deals := (b.deals.filter (fun d => d.shareIndex < 9)) ++ [⟨9, false, 0⟩] ++ (b.deals.filter (fun d => d.shareIndex > 9)) }

/-- The broadcast deal bundles: four honest ones and dealer 8's. -/
def exDeals (fp : Bool) : List DealBundle := [dealOf (ex2 fp), dealOf (ex5 fp), bad8 fp, dealOf (ex11 fp), dealOf (ex14 fp)]

/-- Faulty dealer 2 (whose deals are all valid): a justification bundle nobody asked for, wrong share. -/
def badJ : JustBundle := ⟨2, [⟨5, 1⟩], 7⟩

/-- One honest node through the whole run on that broadcast history: the deal bundles, NO response
    bundle (nobody has anything to report), dealer 2's justification bundle. -/
def runNode (c : Cfg) (fp : Bool) : Option Result :=
  match processDeals c (stAfterDeals c) (exDeals fp) with
  | .error _ => none
  | .ok (st2, _) =>
    match processResponses c st2 [] with
    | (_, .result r) => r
    | (st3, .justifs _) => (match processJustifications c st3 [badJ] with | (_, .result r) => r | _ => none)
    | _ => none

/-- All five dealers honest: the broadcast deal bundles. -/
def exDealsHonest : List DealBundle :=
  [dealOf (ex2 true), dealOf (ex5 true), dealOf (ex8 true), dealOf (ex11 true), dealOf (ex14 true)]

/-- One node through the all-honest run: it must emit no response and finish in `ProcessResponses`. -/
def runNodeHonest (c : Cfg) : Option Result :=
  match processDeals c (stAfterDeals c) exDealsHonest with
  | .ok (st2, none) => (match processResponses c st2 [] with | (_, .result r) => r | _ => none)
  | _ => none

/-- Two nodes have the same public configuration. -/
structure SamePublicCfg (cA cB : Cfg) : Prop where
  q : cA.q = cB.q
  old : cA.oldNodes = cB.oldNodes
  new : cA.newNodes = cB.newNodes
  thr : cA.threshold = cB.threshold
  nonce : cA.nonce = cB.nonce

/-! ### what is a function of public data -/

theorem all_congr_mem {α : Type} (l : List α) (f g : α → Bool) (h : ∀ a ∈ l, f a = g a) : l.all f = l.all g := by
  induction l with
  | nil => rfl
  | cons a l ih =>
    simp only [List.all_cons, h a List.mem_cons_self, ih (fun x hx => h x (List.mem_cons_of_mem _ hx))]

theorem filter_congr_mem {α : Type} (l : List α) (f g : α → Bool) (h : ∀ a ∈ l, f a = g a) : l.filter f = l.filter g := by
  induction l with
  | nil => rfl
  | cons a l ih =>
    simp only [List.filter_cons, h a List.mem_cons_self, ih (fun x hx => h x (List.mem_cons_of_mem _ hx))]


/-- The `ev` outcome of scanning a bundle's deals is public: some deal names an unknown holder. -/
theorem scanDeals_ev (c : Cfg) (b : DealBundle) (ds : List Deal) (ev0 : Bool) (sh0 : Option Nat) :
    (scanDeals c b ds (ev0, sh0)).1 = (ev0 || ds.any (fun dl => !included c.newNodes dl.shareIndex)) := by
  induction ds generalizing ev0 sh0 with
  | nil => simp [scanDeals]
  | cons dl rest ih =>
    unfold scanDeals
    by_cases h : (!included c.newNodes dl.shareIndex) = true
    · simp [h]
    · simp only [h, Bool.false_eq_true, if_false, List.any_cons, Bool.false_or]
      split_ifs <;> exact ih _ _

/-- Commitments accumulated by `computeDKGResult` depend only on the public polynomials. -/
theorem dkg_fold_commits (cA cB : Cfg) (X Y : St) (hq : cA.q = cB.q) (l : List NodeId)
    (hpub : ∀ n ∈ l, X.allPublics n.index = Y.allPublics n.index)
    (s0 s0' : Nat) (f0 : Option (List Nat)) (s s' : Nat) (fp fp' : Option (List Nat))
    (hA : l.foldl (dkgStep cA X) (some (s0, f0)) = some (s, fp))
    (hB : l.foldl (dkgStep cB Y) (some (s0', f0)) = some (s', fp')) : fp = fp' := by
  induction l generalizing s0 s0' f0 with
  | nil =>
    simp only [List.foldl, Option.some.injEq, Prod.mk.injEq] at hA hB
    rw [← hA.2, ← hB.2]
  | cons n l ih =>
    simp only [List.foldl] at hA hB
    have hp := hpub n List.mem_cons_self
    cases hvA : X.validShares n.index with
    | none => simp only [dkgStep, hvA] at hA; rw [dkgStep_none] at hA; cases hA
    | some shA =>
      cases hvB : Y.validShares n.index with
      | none => simp only [dkgStep, hvB] at hB; rw [dkgStep_none] at hB; cases hB
      | some shB =>
        cases hpA : X.allPublics n.index with
        | none => simp only [dkgStep, hvA, hpA] at hA; rw [dkgStep_none] at hA; cases hA
        | some pb =>
          have hpB : Y.allPublics n.index = some pb := by rw [← hp]; exact hpA
          cases f0 with
          | none =>
            simp only [dkgStep, hvA, hpA] at hA
            simp only [dkgStep, hvB, hpB] at hB
            exact ih (fun m hm => hpub m (List.mem_cons_of_mem _ hm)) _ _ _ hA hB
          | some f =>
            simp only [dkgStep, hvA, hpA] at hA
            simp only [dkgStep, hvB, hpB, ← hq] at hB
            cases hadd : polyAdd cA.q f pb with
            | none => simp only [hadd, Option.map_none] at hA; rw [dkgStep_none] at hA; cases hA
            | some r =>
              simp only [hadd, Option.map_some] at hA hB
              exact ih (fun m hm => hpub m (List.mem_cons_of_mem _ hm)) _ _ _ hA hB

end Kyber.Dkg
