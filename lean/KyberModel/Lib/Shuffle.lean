import KyberModel.Proto.Shuffle
import KyberModel.Props.C02
import Mathlib.Algebra.BigOperators.Fin
import Mathlib.Tactic.LinearCombination
import Mathlib.Tactic.FieldSimp
/-
Helper lemmas for C15 (verifiable shuffles), part 1: the simple k-shuffle in `ZMod q`.
-/
namespace Kyber.Shuffle
open Kyber Kyber.Scalar

variable {q : Nat}

theorem lt_of_mul (hq : 0 < q) (a b : Nat) : mul q a b < q := Nat.mod_lt _ hq
theorem lt_of_add (hq : 0 < q) (a b : Nat) : add q a b < q := Nat.mod_lt _ hq

/-- `thver` in `ZMod q`. -/
theorem thver_iff (hq : 0 < q) (A B T a b : Nat) (hT : T < q) :
    thver q A B T a b = true ↔ (a : ZMod q) * A - (b : ZMod q) * B = (T : ZMod q) := by
  unfold thver
  rw [beq_iff_eq, eq_iff_cast_eq _ _ (lt_of_add hq _ _) hT, add_cast, mul_cast, mul_cast, neg_cast hq]
  constructor <;> (intro h; linear_combination h)

theorem thenc_lt (hq : 0 < q) (g ab cd : Nat) : thenc q g ab cd < q := lt_of_mul hq _ _

theorem thenc_cast (hq : 0 < q) (g ab cd : Nat) :
    ((thenc q g ab cd : Nat) : ZMod q) = ((ab : ZMod q) - cd) * g := by
  unfold thenc; rw [mul_cast, sub_cast hq]

theorem ssTheta_lt (hq : 0 < q) (k g γ : Nat) (x y : Nat → Nat) (t : Nat) (θ : Nat → Nat) (i : Nat) :
    ssTheta q k g γ x y t θ i < q := by
  unfold ssTheta
  split
  · exact thenc_lt hq _ _ _
  · split
    · exact thenc_lt hq _ _ _
    · split <;> exact thenc_lt hq _ _ _

theorem xhat_cast (hq : 0 < q) (x : Nat → Nat) (t i : Nat) :
    ((xhat q x t i : Nat) : ZMod q) = (x i : ZMod q) - t := by
  unfold xhat; rw [sub_cast hq]

theorem yhat_cast (hq : 0 < q) (γ : Nat) (y : Nat → Nat) (t i : Nat) :
    ((yhat q γ y t i : Nat) : ZMod q) = (y i : ZMod q) - (γ : ZMod q) * t := by
  unfold yhat; rw [sub_cast hq, mul_cast]

theorem Xh_cast (hq : 0 < q) (x : Nat → Nat) (g t i : Nat) :
    ((add q (mul q (x i) g) (mul q (neg q t) g) : Nat) : ZMod q) = ((x i : ZMod q) - t) * g := by
  rw [add_cast, mul_cast, mul_cast, neg_cast hq]; ring

theorem Yh_cast (hq : 0 < q) (y : Nat → Nat) (g γ t i : Nat) :
    ((add q (mul q (y i) g) (mul q (neg q t) (mul q γ g)) : Nat) : ZMod q) =
      ((y i : ZMod q) - (γ : ZMod q) * t) * g := by
  rw [add_cast, mul_cast, mul_cast, mul_cast, neg_cast hq]; ring

section prime
variable [Fact q.Prime] (hq2 : 2 < q)
include hq2

/-- `R_0·η_0 = c·ξ_0` and `R_{i+1}·η_{i+1} = R_i·ξ_{i+1}`, when the `η` are non-zero. -/
theorem runprod_zero (γ : Nat) (x y : Nat → Nat) (t c : Nat)
    (h0 : ((yhat q γ y t 0 : Nat) : ZMod q) ≠ 0) :
    ((runprod q γ x y t c 0 : Nat) : ZMod q) * (yhat q γ y t 0 : Nat) = (c : ZMod q) * (xhat q x t 0 : Nat) := by
  simp only [runprod]
  rw [div_cast hq2, mul_cast]
  field_simp

theorem runprod_succ (γ : Nat) (x y : Nat → Nat) (t c i : Nat)
    (h0 : ((yhat q γ y t (i + 1) : Nat) : ZMod q) ≠ 0) :
    ((runprod q γ x y t c (i + 1) : Nat) : ZMod q) * (yhat q γ y t (i + 1) : Nat) =
      (runprod q γ x y t c i : Nat) * (xhat q x t (i + 1) : Nat) := by
  simp only [runprod]
  rw [div_cast hq2, mul_cast]
  field_simp

/-- `R_i · Π_{j≤i} η_j = c · Π_{j≤i} ξ_j`. -/
theorem runprod_prod (γ : Nat) (x y : Nat → Nat) (t c : Nat) :
    ∀ i : Nat, (∀ j ≤ i, ((yhat q γ y t j : Nat) : ZMod q) ≠ 0) →
      ((runprod q γ x y t c i : Nat) : ZMod q) * ∏ j ∈ Finset.range (i + 1), ((yhat q γ y t j : Nat) : ZMod q) =
        (c : ZMod q) * ∏ j ∈ Finset.range (i + 1), ((xhat q x t j : Nat) : ZMod q) := by
  intro i
  induction i with
  | zero =>
    intro h
    simp only [zero_add, Finset.range_one, Finset.prod_singleton]
    exact runprod_zero hq2 γ x y t c (h 0 le_rfl)
  | succ i ih =>
    intro h
    rw [Finset.prod_range_succ, Finset.prod_range_succ _ (i + 1)]
    have e1 := runprod_succ hq2 γ x y t c i (h (i + 1) le_rfl)
    have e2 := ih (fun j hj => h j (Nat.le_succ_of_le hj))
    calc ((runprod q γ x y t c (i + 1) : Nat) : ZMod q) *
          ((∏ j ∈ Finset.range (i + 1), ((yhat q γ y t j : Nat) : ZMod q)) * (yhat q γ y t (i + 1) : Nat))
        = (((runprod q γ x y t c (i + 1) : Nat) : ZMod q) * (yhat q γ y t (i + 1) : Nat)) *
            ∏ j ∈ Finset.range (i + 1), ((yhat q γ y t j : Nat) : ZMod q) := by ring
      _ = (((runprod q γ x y t c i : Nat) : ZMod q) * ∏ j ∈ Finset.range (i + 1), ((yhat q γ y t j : Nat) : ZMod q)) *
            (xhat q x t (i + 1) : Nat) := by rw [e1]; ring
      _ = _ := by rw [e2]; ring

theorem rungamma_cast (γ c : Nat) : ∀ i : Nat,
    ((rungamma q γ c i : Nat) : ZMod q) = (c : ZMod q) * ((γ : ZMod q)⁻¹) ^ i := by
  intro i
  induction i with
  | zero => simp [rungamma, ZMod.natCast_mod]
  | succ i ih => simp only [rungamma]; rw [mul_cast, ih, inv_cast hq2, pow_succ]; ring

/-- **Completeness of the simple k-shuffle** (value level): for `y = γ·x∘π`, `γ ≠ 0` and a challenge
    `t` different from every `x_i`, the honest `Theta` and `alpha` satisfy all `2k` chain equations,
    for every blinding `θ` and challenge `c`. -/
theorem simple_complete (k : Nat) (hk : 2 ≤ k) (g γ : Nat) (x y : Nat → Nat) (π : Equiv.Perm (Fin k))
    (hy : ∀ i : Fin k, (y i : ZMod q) = (γ : ZMod q) * (x (π i) : ZMod q))
    (t : Nat) (hγ : (γ : ZMod q) ≠ 0) (ht : ∀ i : Fin k, (x i : ZMod q) ≠ (t : ZMod q))
    (θ : Nat → Nat) (c : Nat) :
    simpleCheck q k g (mul q γ g) (fun i => mul q (x i) g) (fun i => mul q (y i) g) t
      (ssTheta q k g γ x y t θ) c (ssAlpha q k γ x y t θ c) = true := by
  have hq : 0 < q := by omega
  -- ξ, η in ZMod q
  have hξ : ∀ i, ((xhat q x t i : Nat) : ZMod q) = (x i : ZMod q) - t := xhat_cast hq x t
  have hη : ∀ i, ((yhat q γ y t i : Nat) : ZMod q) = (y i : ZMod q) - (γ : ZMod q) * t := yhat_cast hq γ y t
  have hηπ : ∀ i : Fin k, ((yhat q γ y t i : Nat) : ZMod q) = (γ : ZMod q) * ((xhat q x t (π i) : Nat) : ZMod q) := by
    intro i; rw [hη, hξ, hy i]; ring
  have hη0 : ∀ i, i < k → ((yhat q γ y t i : Nat) : ZMod q) ≠ 0 := by
    intro i hi
    have := hηπ ⟨i, hi⟩
    simp only at this
    rw [this, hξ]
    exact mul_ne_zero hγ (sub_ne_zero.mpr (ht (π ⟨i, hi⟩)))
  -- the product relation Π η = γ^k Π ξ
  have hprod : ∏ j ∈ Finset.range k, ((yhat q γ y t j : Nat) : ZMod q) =
      (γ : ZMod q) ^ k * ∏ j ∈ Finset.range k, ((xhat q x t j : Nat) : ZMod q) := by
    rw [Finset.prod_range, Finset.prod_range]
    have : ∀ i : Fin k, ((yhat q γ y t i : Nat) : ZMod q) = (γ : ZMod q) * ((xhat q x t (π i) : Nat) : ZMod q) := hηπ
    rw [Finset.prod_congr rfl (fun i _ => this i), Finset.prod_mul_distrib, Finset.prod_const, Finset.card_univ,
      Fintype.card_fin]
    congr 1
    exact Equiv.prod_comp π (fun i : Fin k => ((xhat q x t i : Nat) : ZMod q))
  have hξprod : ∏ j ∈ Finset.range k, ((xhat q x t j : Nat) : ZMod q) ≠ 0 := by
    rw [Finset.prod_ne_zero_iff]
    intro j hj
    rw [hξ]
    exact sub_ne_zero.mpr (ht ⟨j, Finset.mem_range.mp hj⟩)
  -- the junction: R_{k-1}·γ = c·γ^{-(k-1)}
  have hjunc : ((runprod q γ x y t c (k - 1) : Nat) : ZMod q) * (γ : ZMod q) =
      (c : ZMod q) * ((γ : ZMod q)⁻¹) ^ (k - 1) := by
    have h := runprod_prod hq2 γ x y t c (k - 1) (fun j hj => hη0 j (by omega))
    have hk1 : k - 1 + 1 = k := by omega
    rw [hk1, hprod] at h
    have h2 : ((runprod q γ x y t c (k - 1) : Nat) : ZMod q) * (γ : ZMod q) ^ k = (c : ZMod q) := by
      apply mul_right_cancel₀ hξprod
      linear_combination h
    have hpow : (γ : ZMod q) ^ k = (γ : ZMod q) ^ (k - 1) * γ := by
      rw [← pow_succ, hk1]
    rw [← h2, hpow, inv_pow]
    field_simp
  have hR0 := runprod_zero hq2 γ x y t c (hη0 0 (by omega))
  have hRs : ∀ j, j + 1 < k → ((runprod q γ x y t c (j + 1) : Nat) : ZMod q) * (yhat q γ y t (j + 1) : Nat) =
      (runprod q γ x y t c j : Nat) * (xhat q x t (j + 1) : Nat) :=
    fun j hj => runprod_succ hq2 γ x y t c j (hη0 (j + 1) hj)
  have hrg := rungamma_cast hq2 γ c
  -- alpha at the two kinds of indices
  have hαlo : ∀ j, j < k → ((ssAlpha q k γ x y t θ c j : Nat) : ZMod q) = (θ j : ZMod q) + (runprod q γ x y t c j : Nat) := by
    intro j hj; simp only [ssAlpha, hj, if_true]; rw [add_cast]
  have hαhi : ∀ j, k ≤ j → ((ssAlpha q k γ x y t θ c j : Nat) : ZMod q) =
      (θ j : ZMod q) + (c : ZMod q) * ((γ : ZMod q)⁻¹) ^ (2 * k - 1 - j) := by
    intro j hj
    have : ¬ j < k := by omega
    simp only [ssAlpha, this, if_false]; rw [add_cast, hrg]
  unfold simpleCheck
  simp only [Bool.and_eq_true, List.all_eq_true, List.mem_range]
  refine ⟨⟨⟨?_, ?_⟩, ?_⟩, ?_⟩
  · -- equation 0
    rw [thver_iff hq _ _ _ _ _ (ssTheta_lt hq ..), Xh_cast hq, Yh_cast hq, hαlo 0 (by omega)]
    simp only [ssTheta, if_true]
    rw [thenc_cast hq, mul_cast, ← hξ, ← hη]
    simp only [Nat.cast_zero]
    linear_combination (-(g : ZMod q)) * hR0
  · -- equations 1 .. k-1
    intro j hj
    have hj1 : j + 1 < k := by omega
    rw [thver_iff hq _ _ _ _ _ (ssTheta_lt hq ..), Xh_cast hq, Yh_cast hq, hαlo j (by omega), hαlo (j + 1) hj1]
    have h0 : ¬ j + 1 = 0 := by omega
    simp only [ssTheta, h0, if_false, hj1, if_true, Nat.add_sub_cancel]
    rw [thenc_cast hq, mul_cast, mul_cast, ← hξ, ← hη]
    linear_combination (-(g : ZMod q)) * hRs j hj1
  · -- equations k .. 2k-2
    intro j hj
    have hT : ssTheta q k g γ x y t θ (k + j) =
        thenc q g (mul q (θ (k + j - 1)) γ) (θ (k + j)) := by
      have h0 : ¬ k + j = 0 := by omega
      have h1 : ¬ k + j < k := by omega
      have h2 : k + j < 2 * k - 1 := by omega
      simp only [ssTheta, h0, if_false, h1, h2, if_true]
    rw [thver_iff hq _ _ _ _ _ (ssTheta_lt hq ..), hT, thenc_cast hq, mul_cast, mul_cast, hαhi (k + j) (by omega)]
    rcases Nat.eq_zero_or_pos j with rfl | hjpos
    · simp only [Nat.add_zero]
      rw [hαlo (k - 1) (by omega)]
      have he : 2 * k - 1 - k = k - 1 := by omega
      rw [he]
      linear_combination (g : ZMod q) * hjunc
    · rw [hαhi (k + j - 1) (by omega)]
      have he : 2 * k - 1 - (k + j - 1) = (2 * k - 1 - (k + j)) + 1 := by omega
      rw [he, pow_succ]
      field_simp
      ring
  · -- the last equation
    have hT : ssTheta q k g γ x y t θ (2 * k - 1) = thenc q g (mul q (θ (2 * k - 1 - 1)) γ) 0 := by
      have h0 : ¬ 2 * k - 1 = 0 := by omega
      have h1 : ¬ 2 * k - 1 < k := by omega
      have h2 : ¬ 2 * k - 1 < 2 * k - 1 := by omega
      simp only [ssTheta, h0, if_false, h1, h2]
    have hidx : 2 * k - 1 - 1 = 2 * k - 2 := by omega
    rw [thver_iff hq _ _ _ _ _ (ssTheta_lt hq ..), hT, thenc_cast hq, mul_cast, mul_cast, hidx, hαhi (2 * k - 2) (by omega)]
    have he : 2 * k - 1 - (2 * k - 2) = 1 := by omega
    rw [he, pow_one]
    simp only [Nat.cast_zero]
    field_simp
    ring

end prime

end Kyber.Shuffle
