import KyberModel.Lib.Embed
import KyberModel.Groups.HashToCurve
/-
Helper lemmas for `Props/C17.lean`: the shape of the candidate blocks after placing length byte and data,
the shape of accepted P-256 / BN256 candidates, the digest length of SHA-512.
-/
namespace Kyber.EmbedLib
open Kyber

namespace Ed
open Kyber.Ed25519 Kyber.Edwards
/-- `d.take (min n d.length) = d.take n`. -/
theorem take_min_length {α : Type} (d : List α) (n : Nat) : d.take (min n d.length) = d.take n := by
  by_cases hd : n ≤ d.length
  · rw [Nat.min_eq_left hd]
  · have hd' : d.length ≤ n := by omega
    rw [Nat.min_eq_right hd', List.take_of_length_le (le_refl _), List.take_of_length_le hd']

/-- The candidate after placing length byte and data. -/
theorem embedCand_eq (d blk : Bytes) (hl : blk.length = 32) :
    embedCand (some d) blk =
      UInt8.ofNat (min embedLen d.length) :: (d.take embedLen ++ blk.drop (1 + min embedLen d.length)) ∧
    (embedCand (some d) blk).length = 32 := by
  have hel : embedLen = 29 := rfl
  have hdl : min embedLen d.length ≤ 29 := by omega
  have e : embedCand (some d) blk =
      UInt8.ofNat (min embedLen d.length) :: (d.take embedLen ++ blk.drop (1 + min embedLen d.length)) := by
    show UInt8.ofNat (min embedLen d.length) :: (d.take (min embedLen d.length) ++ blk.drop (1 + min embedLen d.length)) = _
    rw [take_min_length]
  refine ⟨e, ?_⟩
  rw [e]
  simp only [List.length_cons, List.length_append, List.length_take, List.length_drop, hl]
  omega

end Ed

namespace P256s
open Kyber.P256 Kyber.Weierstrass
theorem p_pos : 0 < p := by norm_num [p]
theorem p_lt : p < 256 ^ 32 := by norm_num [p]

/-- Shape of an accepted candidate. -/
theorem embedTry_some (d : Option Bytes) (blk : Bytes) (x y : Nat) (h : embedTry d blk = some (x, y)) :
    x = decodeBE (embedCand d (blk.take 32)) ∧ x < p ∧ y * y % p = rhs x := by
  unfold embedTry at h
  split_ifs at h with h1
  obtain ⟨rfl, rfl⟩ := Prod.mk.inj (Option.some.inj h)
  exact ⟨rfl, h1.2, h1.1⟩

end P256s

namespace BN256s
open Kyber.BN256 Kyber.Weierstrass
theorem p_pos : 0 < p := by norm_num [p]

theorem embedTry_some (d : Option Bytes) (blk : Bytes) (x y : Nat) (h : embedTry d blk = some (x, y)) :
    x = decodeBE (embedCand d blk) % p ∧ y * y % p = rhs x := by
  unfold embedTry at h
  split_ifs at h with h1
  obtain ⟨rfl, rfl⟩ := Prod.mk.inj (Option.some.inj h)
  exact ⟨rfl, h1⟩

end BN256s

theorem sha512_length (m : Bytes) : (Sha512.hash m).length = 64 := by
  simp [Sha512.hash, Sha512.out64]

end Kyber.EmbedLib
