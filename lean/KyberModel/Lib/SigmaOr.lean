import KyberModel.Lib.SigmaAlg
/-
C14 helper lemmas, part 4: lists of scopes (the branches of an `Or`), phase by phase.
-/
namespace Kyber.Sigma
open Kyber Kyber.Scalar

/-- The response vector the honest prover sends for scope `sc` under sub-challenge `c`. -/
def respVec (q : Nat) (sval : Nat → Nat) (sc : Scope) (d : ScopeData) (c : Nat) : Vec :=
  fun s => if s ∈ sc.vars then d.resp q sval c s else none

def commitBytes (cd : Codec) (ds : List ScopeData) : Bytes := ds.flatMap (fun d => encPs cd d.Vs)

def respBytes (E : Params) (sval : Nat → Nat) : List Scope → List ScopeData → List Nat → Bytes
  | sc :: scs, d :: ds, c :: cs =>
    encSs E.cd (E.sv.filterMap (respVec E.q sval sc d c)) ++ respBytes E sval scs ds cs
  | _, _, _ => []

def scopeVPs : List Scope → List ScopeData → List VP
  | sc :: scs, d :: ds => sc.vp d.Vs :: scopeVPs scs ds
  | _, _ => []

/-- All Reps of scope `sc` verify under (sub-)challenge `c'` against the honest responses computed
    for (sub-)challenge `c`. -/
def ScopeChecks (E : Params) (sval : Nat → Nat) (sc : Scope) (d : ScopeData) (c c' : Nat) : Prop :=
  List.Forall₂ (RepChecks E c' (respVec E.q sval sc d c)) sc.reps d.Vs

def AllChecks (E : Params) (sval : Nat → Nat) : List Scope → List ScopeData → List Nat → List Nat → Prop
  | sc :: scs, d :: ds, c :: cs, c' :: cs' => ScopeChecks E sval sc d c c' ∧ AllChecks E sval scs ds cs cs'
  | _, _, _, _ => True

/-- The encoding-level facts about a committed scope (independent of the public points). -/
def ScopeShape (q : Nat) (sc : Scope) (d : ScopeData) : Prop :=
  d.Vs.length = sc.reps.length ∧ (∀ V ∈ d.Vs, V < q) ∧ (∀ s, (d.vf s).isSome ↔ s ∈ sc.vars) ∧
    Vec.bounded q d.vf

theorem ScopeCommitted.shape {E : Params} {sc : Scope} {d : ScopeData} (h : ScopeCommitted E sc d) :
    ScopeShape E.q sc d := by
  refine ⟨h.length, h.lt, ?_, ?_⟩
  · obtain ⟨_, _, _, _, h4, _⟩ := h; exact h4
  · obtain ⟨_, _, _, _, _, h5⟩ := h; exact h5

theorem forall₂_shape {E : Params} : ∀ {scs : List Scope} {ds : List ScopeData},
    List.Forall₂ (ScopeCommitted E) scs ds → List.Forall₂ (ScopeShape E.q) scs ds := by
  intro scs ds h
  induction h with
  | nil => exact List.Forall₂.nil
  | cons hd _ ih => exact List.Forall₂.cons hd.shape ih

theorem forall₂_congr_mem {α β : Type} {R S : α → β → Prop} :
    ∀ (l : List α) (l' : List β), (∀ a ∈ l, ∀ b, R a b ↔ S a b) →
      (List.Forall₂ R l l' ↔ List.Forall₂ S l l') := by
  intro l
  induction l with
  | nil =>
    intro l' _
    constructor <;> (intro h; cases h; exact List.Forall₂.nil)
  | cons a l ih =>
    intro l' h
    cases l' with
    | nil => constructor <;> (intro h'; cases h')
    | cons b l' =>
      have h1 := h a (List.mem_cons_self ..) b
      have h2 := ih l' (fun a' ha' => h a' (List.mem_cons_of_mem _ ha'))
      constructor
      · intro h'; cases h' with | cons x y => exact List.Forall₂.cons (h1.mp x) (h2.mp y)
      · intro h'; cases h' with | cons x y => exact List.Forall₂.cons (h1.mpr x) (h2.mpr y)

/-! ### Phase 1: commitments -/

theorem commitOr_scopes (E : Params) (rnd : Nat → Nat) (hq : 0 < E.q) :
    ∀ (scs : List Scope) (ws : List (Option Nat)) (ch : List Nat) (st : PCtx), ws.length = scs.length →
      ∃ ds st', commitOr E rnd (scs.map Scope.toPred) ws ch st = .ok (st', ds.map (·.pp)) ∧
        st' = { st with k := st'.k, msg := st.msg ++ commitBytes E.cd ds } ∧
        List.Forall₂ (ScopeCommitted E) scs ds ∧ ds.map (·.w) = ws := by
  intro scs
  induction scs with
  | nil =>
    intro ws ch st hl
    cases ws with
    | nil => exact ⟨[], st, by simp [commitOr], by simp [commitBytes], List.Forall₂.nil, rfl⟩
    | cons _ _ => simp at hl
  | cons sc scs ih =>
    intro ws ch st hl
    cases ws with
    | nil => simp at hl
    | cons w ws =>
      obtain ⟨d, st1, hw, hcm, hst1, hsc⟩ := commit_scope E rnd hq sc w (if w.isNone then ch else []) st
      obtain ⟨ds, st', i1, i2, i3, i4⟩ := ih ws ch st1 (by simpa using hl)
      refine ⟨d :: ds, st', ?_, ?_, List.Forall₂.cons hsc i3, by simp [hw, i4]⟩
      · simp only [List.map_cons, commitOr, hcm, i1]
      · rw [i2, hst1]
        simp [commitBytes, List.append_assoc]

theorem getCommitsOr_scopes (E : Params) (hc : E.cd.Lawful E.q) :
    ∀ (scs : List Scope) (ds : List ScopeData) (st : VCtx) (tail : Bytes),
      List.Forall₂ (ScopeShape E.q) scs ds → st.rest = commitBytes E.cd ds ++ tail →
      getCommitsOr E (scs.map Scope.toPred) st =
        .ok ({ st with rest := tail, pend := st.pend ++ commitBytes E.cd ds }, scopeVPs scs ds) := by
  intro scs
  induction scs with
  | nil =>
    intro ds st tail hf h
    cases hf
    simp only [commitBytes, List.flatMap_nil, List.nil_append] at h
    simp [getCommitsOr, scopeVPs, commitBytes, ← h]
  | cons sc scs ih =>
    intro ds st tail hf h
    cases hf with
    | cons hd htl =>
      rename_i d ds
      have h' : st.rest = encPs E.cd d.Vs ++ (commitBytes E.cd ds ++ tail) := by
        rw [h]; simp [commitBytes, List.append_assoc]
      simp only [List.map_cons, getCommitsOr]
      rw [getCommits_scope E hc sc d.Vs st _ hd.1 hd.2.1 h']
      simp only
      rw [ih ds _ tail htl rfl]
      simp [scopeVPs, commitBytes, List.append_assoc]

/-! ### Phase 2: responses -/

theorem respondOr_scopes (E : Params) (sval : Nat → Nat) :
    ∀ (scs : List Scope) (ds : List ScopeData) (cis : List Nat) (ch : List Nat) (st : PCtx),
      List.Forall₂ (ScopeCommitted E) scs ds → cis.length = scs.length →
      respondOr E sval (scs.map Scope.toPred) (ds.map (·.pp)) (ds.map (·.w)) (cis.map some) ch st =
        .ok (st.put (respBytes E sval scs ds cis)) := by
  intro scs
  induction scs with
  | nil =>
    intro ds cis ch st hf hl
    cases hf
    simp [respondOr, respBytes, PCtx.put_nil]
  | cons sc scs ih =>
    intro ds cis ch st hf hl
    cases hf with
    | cons hd htl =>
      rename_i d ds
      cases cis with
      | nil => simp at hl
      | cons c cis =>
        obtain ⟨rf, h1, h2⟩ := respond_scope E sval sc d c (if d.w.isNone then ch else []) st hd
        have hrf : rf = respVec E.q sval sc d c := funext h2
        simp only [List.map_cons, respondOr, h1]
        rw [ih ds cis ch _ htl (by simpa using hl), hrf]
        simp [respBytes, PCtx.put_put]

theorem respVec_isSome (q : Nat) (sval : Nat → Nat) (sc : Scope) (d : ScopeData) (c : Nat)
    (h : ScopeShape q sc d) (s : Nat) : (respVec q sval sc d c s).isSome ↔ s ∈ sc.vars := by
  obtain ⟨_, _, h4, _⟩ := h
  unfold respVec
  by_cases hs : s ∈ sc.vars
  · simp only [hs, if_true, iff_true, ScopeData.resp, target]
    obtain ⟨x, hx⟩ := Option.isSome_iff_exists.mp ((h4 s).mpr hs)
    cases d.w <;> simp [hx]
  · simp [hs]

theorem respVec_bounded (q : Nat) (hq : 0 < q) (sval : Nat → Nat) (sc : Scope) (d : ScopeData)
    (c : Nat) (h : ScopeShape q sc d) : Vec.bounded q (respVec q sval sc d c) := by
  obtain ⟨_, _, _, h5⟩ := h
  intro s x hx
  unfold respVec at hx
  by_cases hs : s ∈ sc.vars
  · simp only [hs, if_true, ScopeData.resp, target] at hx
    cases hw : d.w with
    | some w => rw [hw] at hx; exact h5 s x hx
    | none =>
      rw [hw] at hx
      cases hv : d.vf s with
      | none => rw [hv] at hx; cases hx
      | some vs =>
        rw [hv] at hx
        simp only [Option.map_some, Option.some.injEq] at hx
        rw [← hx]; exact Nat.mod_lt _ hq
  · simp [hs] at hx

/-- One scope, verifier side, reading the honest response bytes. -/
theorem verify_scope_honest (E : Params) (hc : E.cd.Lawful E.q) (hq : 0 < E.q) (sval : Nat → Nat)
    (sc : Scope) (d : ScopeData) (c c' : Nat) (st st' : VCtx) (tail : Bytes)
    (h : ScopeShape E.q sc d) (hsv : ∀ s ∈ sc.vars, s ∈ E.sv)
    (hrest : st.rest = encSs E.cd (E.sv.filterMap (respVec E.q sval sc d c)) ++ tail) :
    verify E sc.toPred (sc.vp d.Vs) c' none st = .ok st' ↔
      st' = { st with rest := tail, pend := st.pend ++ encSs E.cd (E.sv.filterMap (respVec E.q sval sc d c)) } ∧
        ScopeChecks E sval sc d c c' := by
  rw [verify_scope E sc d.Vs c' st st' h.1]
  have hdom : ∀ s ∈ E.sv, (sc.ph s).isSome = (respVec E.q sval sc d c s).isSome := by
    intro s _
    have h1 := (placeReps_spec sc.reps Vec.empty).2 s
    have h2 := respVec_isSome E.q sval sc d c h s
    simp only [Vec.empty, Option.isSome_none, Bool.false_eq_true, false_or] at h1
    rw [Bool.eq_iff_iff]
    exact h1.trans h2.symm
  obtain ⟨res, e1, e2, _⟩ := readResponses_honest E hc _ (respVec_bounded E.q hq sval sc d c h) E.sv sc.ph st tail hdom hrest
  have hcongr : ∀ rp ∈ sc.reps, ∀ V, RepChecks E c' res rp V ↔ RepChecks E c' (respVec E.q sval sc d c) rp V := by
    intro rp hrp V
    unfold RepChecks
    rw [sumTerms_congr E.q E.pval res (respVec E.q sval sc d c) rp.ts _ ?_]
    intro t ht
    have hs : t.s ∈ sc.vars := by
      simp only [Scope.vars, repsVars, List.mem_flatMap]
      exact ⟨rp, hrp, by simp only [termVars, List.mem_map]; exact ⟨t, ht, rfl⟩⟩
    exact e2 t.s (hsv _ hs) ((respVec_isSome E.q sval sc d c h t.s).mpr hs)
  constructor
  · rintro ⟨r, hr, hchk⟩
    rw [e1] at hr
    simp only [Except.ok.injEq, Prod.mk.injEq] at hr
    obtain ⟨rfl, rfl⟩ := hr
    exact ⟨rfl, (forall₂_congr_mem _ _ hcongr).mp hchk⟩
  · rintro ⟨rfl, hchk⟩
    exact ⟨res, e1, (forall₂_congr_mem _ _ hcongr).mpr hchk⟩

theorem verifyOr_scopes (E : Params) (hc : E.cd.Lawful E.q) (hq : 0 < E.q) (sval : Nat → Nat) :
    ∀ (scs : List Scope) (ds : List ScopeData) (cis cis' : List Nat) (st st' : VCtx) (tail : Bytes),
      List.Forall₂ (ScopeShape E.q) scs ds → cis.length = scs.length → cis'.length = scs.length →
      (∀ sc ∈ scs, ∀ s ∈ sc.vars, s ∈ E.sv) →
      st.rest = respBytes E sval scs ds cis ++ tail →
      (verifyOr E (scs.map Scope.toPred) (scopeVPs scs ds) cis' st = .ok st' ↔
        st' = { st with rest := tail, pend := st.pend ++ respBytes E sval scs ds cis } ∧
          AllChecks E sval scs ds cis cis') := by
  intro scs
  induction scs with
  | nil =>
    intro ds cis cis' st st' tail hf hl hl' _ h
    cases hf
    simp only [respBytes, List.nil_append] at h
    simp only [List.map_nil, verifyOr, respBytes, AllChecks, and_true, List.append_nil, Except.ok.injEq]
    rw [← h]
    exact eq_comm
  | cons sc scs ih =>
    intro ds cis cis' st st' tail hf hl hl' hsv h
    cases hf with
    | cons hd htl =>
      rename_i d ds
      cases cis with
      | nil => simp at hl
      | cons c cis =>
       cases cis' with
       | nil => simp at hl'
       | cons c' cis' =>
        have h' : st.rest = encSs E.cd (E.sv.filterMap (respVec E.q sval sc d c)) ++
            (respBytes E sval scs ds cis ++ tail) := by
          rw [h]; simp [respBytes, List.append_assoc]
        simp only [List.map_cons, scopeVPs, verifyOr, AllChecks]
        cases hv : verify E sc.toPred (sc.vp d.Vs) c' none st with
        | error e =>
          simp only
          constructor
          · intro hx; cases hx
          · rintro ⟨_, hchk, _⟩
            have := (verify_scope_honest E hc hq sval sc d c c' st _ _ hd
              (hsv sc (List.mem_cons_self ..)) h').mpr ⟨rfl, hchk⟩
            rw [hv] at this; cases this
        | ok st1 =>
          simp only
          obtain ⟨hst1, hchk⟩ := (verify_scope_honest E hc hq sval sc d c c' st st1 _ hd
            (hsv sc (List.mem_cons_self ..)) h').mp hv
          have ih' := ih ds cis cis' st1 st' tail htl (by simpa using hl) (by simpa using hl')
            (fun sc' hsc' => hsv sc' (List.mem_cons_of_mem _ hsc')) (by rw [hst1])
          rw [ih', hst1]
          simp only [respBytes, List.append_assoc]
          constructor
          · rintro ⟨h1, h2⟩; exact ⟨h1, hchk, h2⟩
          · rintro ⟨h1, _, h2⟩; exact ⟨h1, h2⟩

end Kyber.Sigma
