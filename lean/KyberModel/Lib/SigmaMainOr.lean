import KyberModel.Lib.SigmaMain
/-
C14 helper lemmas, part 7: an `Or` of scopes at top level.
-/
namespace Kyber.Sigma
open Kyber Kyber.Scalar

theorem forall₂_split {α β : Type} {R : α → β → Prop} :
    ∀ (a : List α) (x : α) (b : List α) (l : List β), List.Forall₂ R (a ++ x :: b) l →
      ∃ la y lb, l = la ++ y :: lb ∧ List.Forall₂ R a la ∧ R x y ∧ List.Forall₂ R b lb := by
  intro a
  induction a with
  | nil =>
    intro x b l h
    cases h with
    | cons h1 h2 => exact ⟨[], _, _, rfl, List.Forall₂.nil, h1, h2⟩
  | cons a0 a ih =>
    intro x b l h
    cases h with
    | cons h1 h2 =>
      obtain ⟨la, y, lb, e, f1, f2, f3⟩ := ih x b _ h2
      exact ⟨_ :: la, y, lb, by rw [e]; rfl, List.Forall₂.cons h1 f1, f2, f3⟩

theorem allChecks_append (E : Params) (sval : Nat → Nat) :
    ∀ (a : List Scope) (da : List ScopeData) (ca ca' : List Nat) (b : List Scope) (db : List ScopeData)
      (cb cb' : List Nat), da.length = a.length → ca.length = a.length → ca'.length = a.length →
      (AllChecks E sval (a ++ b) (da ++ db) (ca ++ cb) (ca' ++ cb') ↔
        AllChecks E sval a da ca ca' ∧ AllChecks E sval b db cb cb') := by
  intro a
  induction a with
  | nil =>
    intro da ca ca' b db cb cb' h1 h2 h3
    have e1 : da = [] := List.length_eq_zero_iff.mp h1
    have e2 : ca = [] := List.length_eq_zero_iff.mp h2
    have e3 : ca' = [] := List.length_eq_zero_iff.mp h3
    subst e1 e2 e3
    simp [AllChecks]
  | cons a0 a ih =>
    intro da ca ca' b db cb cb' h1 h2 h3
    cases da with
    | nil => simp at h1
    | cons d0 da =>
      cases ca with
      | nil => simp at h2
      | cons c0 ca =>
        cases ca' with
        | nil => simp at h3
        | cons c0' ca' =>
          simp only [List.cons_append, AllChecks]
          rw [ih da ca ca' b db cb cb' (by simpa using h1) (by simpa using h2) (by simpa using h3)]
          tauto

theorem allChecks_simulated (E : Params) (sval : Nat → Nat) :
    ∀ (scs : List Scope) (ds : List ScopeData) (ws : List Nat), List.Forall₂ (ScopeCommitted E) scs ds →
      ds.map (·.w) = ws.map some → AllChecks E sval scs ds ws ws := by
  intro scs ds ws hf
  induction hf generalizing ws with
  | nil => intro _; cases ws <;> simp [AllChecks]
  | @cons sc d scs ds hd _ ih =>
    intro hw
    cases ws with
    | nil => simp at hw
    | cons w ws =>
      simp only [List.map_cons, List.cons.injEq] at hw
      exact ⟨scopeChecks_simulated E sval sc d w hd hw.1, ih ws hw.2⟩

/-- Sub-challenge of the proof-obligated branch: `c − Σ` of the other branches' pre-challenges. -/
def orCj (q : Nat) (wpre wpost : List Nat) (c : Nat) : Nat :=
  obligatedChallenge q wpre.length (wpre.map some ++ none :: wpost.map some) 0 c

def orCis (q : Nat) (wpre wpost : List Nat) (c : Nat) : List Nat := wpre ++ orCj q wpre wpost c :: wpost

/-- Second prover message of an `Or`: the sub-challenges (if more than one branch), then each
    branch's responses. -/
def orM2 (E : Params) (sval : Nat → Nat) (scs : List Scope) (ds : List ScopeData) (cis : List Nat) : Bytes :=
  (if 1 < scs.length then encSs E.cd cis else []) ++ respBytes E sval scs ds cis

theorem orCj_cast (q : Nat) (hq : 0 < q) (wpre wpost : List Nat) (c : Nat) :
    ((orCj q wpre wpost c : Nat) : ZMod q) = (c : ZMod q) - zsum q wpre - zsum q wpost := by
  have := obligatedChallenge_cast q hq wpre wpost 0 c
  simpa [orCj] using this

theorem orCis_sum (q : Nat) (hq : 0 < q) (wpre wpost : List Nat) (c : Nat) (hc : c < q) :
    sumMod q (orCis q wpre wpost c) = c := by
  rw [eq_iff_cast_eq _ _ (sumMod_lt q hq _) hc, sumMod_cast, orCis, zsum_append, zsum_cons, orCj_cast q hq]
  ring

/-- Verifier of an `Or` of scopes reading the honest second message built for sub-challenges `cis`,
    under master challenge `c'`. -/
theorem verify_or (E : Params) (hq : 0 < E.q) (hc : E.cd.Lawful E.q) (sval : Nat → Nat)
    (scs : List Scope) (ds : List ScopeData) (cis : List Nat) (c' : Nat) (st : VCtx) (tl : Bytes)
    (hshape : List.Forall₂ (ScopeShape E.q) scs ds) (hlen : cis.length = scs.length) (hne : scs ≠ [])
    (hb : ∀ x ∈ cis, x < E.q) (hsv : ∀ sc ∈ scs, ∀ s ∈ sc.vars, s ∈ E.sv)
    (hrest : st.rest = orM2 E sval scs ds cis ++ tl) :
    (∃ st', verify E (orPred scs) (.or (scopeVPs scs ds)) c' none st = .ok st') ↔
      if 1 < scs.length then sumMod E.q cis = c' ∧ AllChecks E sval scs ds cis cis
      else AllChecks E sval scs ds cis [c'] := by
  have hpl : (scs.map Scope.toPred).length = scs.length := List.length_map _
  have hn0 : ¬ scs.length = 0 := fun h => hne (List.length_eq_zero_iff.mp h)
  simp only [orPred, verify, hpl, hn0, if_false]
  by_cases h1 : 1 < scs.length
  · simp only [gt_iff_lt, h1, if_true]
    have hrest' : st.rest = encSs E.cd cis ++ (respBytes E sval scs ds cis ++ tl) := by
      rw [hrest]; simp [orM2, h1, List.append_assoc]
    rw [← hlen, readScalars_enc E hc cis st _ hb hrest']
    simp only
    by_cases hs : sumMod E.q cis = c'
    · simp only [hs, if_true, true_and]
      constructor
      · rintro ⟨st', h⟩
        exact ((verifyOr_scopes E hc hq sval scs ds cis cis _ st' tl hshape hlen hlen hsv rfl).mp h).2
      · intro hchk
        exact ⟨_, (verifyOr_scopes E hc hq sval scs ds cis cis _ _ tl hshape hlen hlen hsv rfl).mpr ⟨rfl, hchk⟩⟩
    · simp only [hs, if_false, false_and, iff_false]
      rintro ⟨_, h⟩; cases h
  · simp only [gt_iff_lt, h1, if_false]
    have hrest' : st.rest = respBytes E sval scs ds cis ++ tl := by
      rw [hrest]; simp [orM2, h1]
    have hl1 : ([c'] : List Nat).length = scs.length := by
      have : scs.length = 1 := by omega
      simp [this]
    constructor
    · rintro ⟨st', h⟩
      exact ((verifyOr_scopes E hc hq sval scs ds cis [c'] st st' tl hshape hlen hl1 hsv hrest').mp h).2
    · intro hchk
      exact ⟨_, (verifyOr_scopes E hc hq sval scs ds cis [c'] st _ tl hshape hlen hl1 hsv hrest').mpr ⟨rfl, hchk⟩⟩

theorem hashVerify_or (E : Params) (hq : 0 < E.q) (hc : E.cd.Lawful E.q) (sval : Nat → Nat)
    (scs : List Scope) (ds : List ScopeData) (cis : List Nat) (tl : Bytes)
    (hshape : List.Forall₂ (ScopeShape E.q) scs ds) (hlen : cis.length = scs.length) (hne : scs ≠ [])
    (hb : ∀ x ∈ cis, x < E.q) (hsv : ∀ sc ∈ scs, ∀ s ∈ sc.vars, s ∈ E.sv) :
    hashVerify E (orPred scs) (commitBytes E.cd ds ++ (orM2 E sval scs ds cis ++ tl)) = .ok () ↔
      if 1 < scs.length then sumMod E.q cis = chal E (commitBytes E.cd ds) ∧ AllChecks E sval scs ds cis cis
      else AllChecks E sval scs ds cis [chal E (commitBytes E.cd ds)] := by
  rw [hashVerify_iff]
  have hg := getCommitsOr_scopes E hc scs ds
    (VCtx.init (commitBytes E.cd ds ++ (orM2 E sval scs ds cis ++ tl))) (orM2 E sval scs ds cis ++ tl) hshape rfl
  simp only [VCtx.init, List.nil_append] at hg
  simp only [VCtx.init, orPred, getCommits, hg, mkVec]
  obtain ⟨v1, v2⟩ := VCtx.round1 E
    (⟨orM2 E sval scs ds cis ++ tl, commitBytes E.cd ds, [], 0⟩ : VCtx) (commitBytes E.cd ds) rfl rfl rfl
  rw [← verify_or E hq hc sval scs ds cis (chal E (commitBytes E.cd ds)) _ tl hshape hlen hne hb hsv v2, ← v1]
  constructor
  · rintro ⟨st, vp, r, st', h1, h2⟩
    simp only [Except.ok.injEq, Prod.mk.injEq] at h1
    obtain ⟨rfl, rfl, rfl⟩ := h1
    exact ⟨st', h2⟩
  · rintro ⟨st', h⟩
    exact ⟨_, _, _, st', rfl, h⟩

theorem dVerify_or (E : Params) (hq : 0 < E.q) (hc : E.cd.Lawful E.q) (sval : Nat → Nat)
    (scs : List Scope) (ds : List ScopeData) (cis : List Nat) (c' : Nat) (tl : Bytes)
    (hshape : List.Forall₂ (ScopeShape E.q) scs ds) (hlen : cis.length = scs.length) (hne : scs ≠ [])
    (hb : ∀ x ∈ cis, x < E.q) (hsv : ∀ sc ∈ scs, ∀ s ∈ sc.vars, s ∈ E.sv) :
    dVerify E (orPred scs) (commitBytes E.cd ds) (orM2 E sval scs ds cis ++ tl) c' = .ok () ↔
      if 1 < scs.length then sumMod E.q cis = c' ∧ AllChecks E sval scs ds cis cis
      else AllChecks E sval scs ds cis [c'] := by
  rw [dVerify_iff]
  have hg := getCommitsOr_scopes E hc scs ds (VCtx.init (commitBytes E.cd ds)) [] hshape (by simp [VCtx.init])
  simp only [VCtx.init, List.nil_append] at hg
  simp only [VCtx.init, orPred, getCommits, hg, mkVec]
  rw [← verify_or E hq hc sval scs ds cis c'
    (⟨orM2 E sval scs ds cis ++ tl, commitBytes E.cd ds, [], 0⟩ : VCtx) tl hshape hlen hne hb hsv rfl]
  constructor
  · rintro ⟨st, vp, r, st', h1, h2⟩
    simp only [Except.ok.injEq, Prod.mk.injEq] at h1
    obtain ⟨rfl, rfl, rfl⟩ := h1
    exact ⟨st', h2⟩
  · rintro ⟨st', h⟩
    exact ⟨_, _, _, st', rfl, h⟩

/-- The honest prover on an `Or` of scopes whose `pre.length`-th branch is the claimed one. -/
theorem or_master (E : Params) (hq : 0 < E.q) (sval rnd : Nat → Nat) (pre : List Scope) (scj : Scope)
    (post : List Scope) :
    ∃ (dpre : List ScopeData) (dj : ScopeData) (dpost : List ScopeData) (wpre wpost : List Nat),
      List.Forall₂ (ScopeCommitted E) pre dpre ∧ ScopeCommitted E scj dj ∧
      List.Forall₂ (ScopeCommitted E) post dpost ∧
      dpre.map (·.w) = wpre.map some ∧ dj.w = none ∧ dpost.map (·.w) = wpost.map some ∧
      wpre.length = pre.length ∧ wpost.length = post.length ∧
      (∀ x ∈ wpre, x < E.q) ∧ (∀ x ∈ wpost, x < E.q) ∧
      (drawExcept E.q rnd pre.length (pre ++ scj :: post).length 0 PCtx.init).1 =
        wpre.map some ++ none :: wpost.map some ∧
      proveChallenge E rnd (orPred (pre ++ scj :: post)) [pre.length] =
        .ok (chal E (commitBytes E.cd (dpre ++ dj :: dpost))) ∧
      hashProve E sval rnd (orPred (pre ++ scj :: post)) [pre.length] =
        .ok (commitBytes E.cd (dpre ++ dj :: dpost) ++
          orM2 E sval (pre ++ scj :: post) (dpre ++ dj :: dpost)
            (orCis E.q wpre wpost (chal E (commitBytes E.cd (dpre ++ dj :: dpost))))) ∧
      (∀ c, dProve E sval rnd (orPred (pre ++ scj :: post)) [pre.length] c =
        .ok (commitBytes E.cd (dpre ++ dj :: dpost),
          orM2 E sval (pre ++ scj :: post) (dpre ++ dj :: dpost) (orCis E.q wpre wpost c))) := by
  have hn : (pre ++ scj :: post).length = pre.length + 1 + post.length := by simp; omega
  obtain ⟨wpre, wpost, std, hd, hl1, hl2, hb1, hb2, hstd⟩ :=
    drawExcept_shape E.q rnd hq pre.length post.length 0 _ PCtx.init hn
  rw [Nat.zero_add] at hd
  have hwl : (wpre.map some ++ none :: wpost.map some).length = (pre ++ scj :: post).length := by
    simp [hl1, hl2]
  obtain ⟨ds, st1, hcm, hst1, hf, hw⟩ :=
    commitOr_scopes E rnd hq (pre ++ scj :: post) (wpre.map some ++ none :: wpost.map some) [] std hwl
  obtain ⟨dpre, dj, dpost, rfl, f1, f2, f3⟩ := forall₂_split pre scj post ds hf
  have hdl : dpre.length = wpre.length := by rw [hl1, ← f1.length_eq]
  simp only [List.map_append, List.map_cons] at hw
  obtain ⟨hw1, hw2⟩ := List.append_inj hw (by simp [hdl])
  simp only [List.cons.injEq] at hw2
  obtain ⟨hw2, hw3⟩ := hw2
  have hwall : (dpre ++ dj :: dpost).map (·.w) = wpre.map some ++ none :: wpost.map some := by
    simp [hw1, hw2, hw3]
  have hjlt : pre.length < (pre ++ scj :: post).length := by
    rw [hn]; omega
  have hcommit : commit E rnd (orPred (pre ++ scj :: post)) none none [pre.length] PCtx.init =
      .ok (st1, .or none (wpre.map some ++ none :: wpost.map some) ((dpre ++ dj :: dpost).map (·.pp)), Vec.empty) := by
    simp only [orPred, commit, List.length_map, hjlt, if_true, hd, hcm]
  have hst1' : st1 = { PCtx.init with k := st1.k, msg := commitBytes E.cd (dpre ++ dj :: dpost) } := by
    rw [hst1, hstd]; simp [PCtx.init]
  obtain ⟨r1, r2, r3⟩ := PCtx.round1 E st1 _ hst1'
  -- the response phase, from any state with an empty message buffer
  have hresp : ∀ (c : Nat) (st : PCtx),
      respond E sval (orPred (pre ++ scj :: post))
        (.or none (wpre.map some ++ none :: wpost.map some) ((dpre ++ dj :: dpost).map (·.pp))) c none
        [pre.length] st =
      .ok (st.put (orM2 E sval (pre ++ scj :: post) (dpre ++ dj :: dpost) (orCis E.q wpre wpost c)), Vec.empty) := by
    intro c st
    have hci : setAt (wpre.map some ++ none :: wpost.map some) pre.length
        (obligatedChallenge E.q pre.length (wpre.map some ++ none :: wpost.map some) 0 c) =
        (orCis E.q wpre wpost c).map some := by
      rw [← hl1]; exact setAt_split wpre wpost _
    have hcl : (orCis E.q wpre wpost c).length = (pre ++ scj :: post).length := by
      simp [orCis, hl1, hl2]
    simp only [orPred, respond, hci, List.length_map, List.drop_one, List.tail_cons]
    by_cases h1 : 1 < (pre ++ scj :: post).length
    · simp only [gt_iff_lt, h1, if_true, putAll_some]
      rw [← hwall, respondOr_scopes E sval _ _ _ [] _ hf hcl]
      simp only [orM2, h1, if_true, PCtx.put_put]
    · simp only [gt_iff_lt, h1, if_false]
      rw [← hwall, respondOr_scopes E sval _ _ _ [] _ hf hcl]
      simp only [orM2, h1, if_false, List.nil_append]
  refine ⟨dpre, dj, dpost, wpre, wpost, f1, f2, f3, hw1, hw2, hw3, hl1, hl2, hb1, hb2, ?_, ?_, ?_, ?_⟩
  · rw [hd]
  · simp only [proveChallenge, hcommit, r1]
  · simp only [hashProve, hcommit, r1, hresp, PCtx.finish_put _ _ r2, r3]
  · intro c
    have hmsg : st1.msg = commitBytes E.cd (dpre ++ dj :: dpost) := by rw [hst1']
    simp only [dProve, hcommit, hresp, hmsg, PCtx.put, List.nil_append]

theorem Params.verifier_self (E : Params) : E.verifier E.name E.O E.pval = E := by
  cases E; rfl

theorem forall₂_join {α β : Type} {R : α → β → Prop} {a : List α} {la : List β} {x : α} {y : β}
    {b : List α} {lb : List β} (h1 : List.Forall₂ R a la) (h2 : R x y) (h3 : List.Forall₂ R b lb) :
    List.Forall₂ R (a ++ x :: b) (la ++ y :: lb) := by
  induction h1 with
  | nil => exact List.Forall₂.cons h2 h3
  | cons hd _ ih => exact List.Forall₂.cons hd ih

/-- The checks of an `Or` reduce to those of the claimed branch: the other branches verify for
    their own pre-challenges whatever their truth. -/
theorem allChecks_or (E : Params) (sval : Nat → Nat) (pre : List Scope) (scj : Scope) (post : List Scope)
    (dpre : List ScopeData) (dj : ScopeData) (dpost : List ScopeData) (wpre wpost : List Nat) (cj cj' : Nat)
    (f1 : List.Forall₂ (ScopeCommitted E) pre dpre) (f3 : List.Forall₂ (ScopeCommitted E) post dpost)
    (hw1 : dpre.map (·.w) = wpre.map some) (hw3 : dpost.map (·.w) = wpost.map some)
    (hl1 : wpre.length = pre.length) :
    AllChecks E sval (pre ++ scj :: post) (dpre ++ dj :: dpost) (wpre ++ cj :: wpost) (wpre ++ cj' :: wpost) ↔
      ScopeChecks E sval scj dj cj cj' := by
  rw [allChecks_append E sval pre dpre wpre wpre _ _ _ _ (by rw [← f1.length_eq]) hl1 hl1]
  simp only [AllChecks]
  have h1 := allChecks_simulated E sval pre dpre wpre f1 hw1
  have h3 := allChecks_simulated E sval post dpost wpost f3 hw3
  tauto

theorem orCj_nil (q c : Nat) : orCj q [] [] c = c := by simp [orCj, obligatedChallenge]

theorem single_branch {pre post : List Scope} {scj : Scope} (h1 : ¬ 1 < (pre ++ scj :: post).length) :
    pre = [] ∧ post = [] := by
  constructor
  · cases pre with
    | nil => rfl
    | cons _ _ =>
      exfalso; apply h1
      rw [List.length_append, List.length_cons, List.length_cons]; omega
  · cases post with
    | nil => rfl
    | cons _ _ =>
      exfalso; apply h1
      rw [List.length_append, List.length_cons, List.length_cons]; omega

theorem verifyChallenge_scope (E : Params) (hc : E.cd.Lawful E.q) (sc : Scope) (d : ScopeData) (tl : Bytes)
    (hshape : ScopeShape E.q sc d) :
    verifyChallenge E sc.toPred (encPs E.cd d.Vs ++ tl) = .ok (chal E (encPs E.cd d.Vs)) := by
  have hg := getCommits_scope E hc sc d.Vs (VCtx.init (encPs E.cd d.Vs ++ tl)) tl hshape.1 hshape.2.1 rfl
  simp only [VCtx.init, List.nil_append] at hg
  simp only [verifyChallenge, VCtx.init, hg]
  rw [(VCtx.round1 E (⟨tl, encPs E.cd d.Vs, [], 0⟩ : VCtx) _ rfl rfl rfl).1]

theorem verifyChallenge_or (E : Params) (hc : E.cd.Lawful E.q) (scs : List Scope) (ds : List ScopeData)
    (tl : Bytes) (hshape : List.Forall₂ (ScopeShape E.q) scs ds) :
    verifyChallenge E (orPred scs) (commitBytes E.cd ds ++ tl) = .ok (chal E (commitBytes E.cd ds)) := by
  have hg := getCommitsOr_scopes E hc scs ds (VCtx.init (commitBytes E.cd ds ++ tl)) tl hshape rfl
  simp only [VCtx.init, List.nil_append] at hg
  simp only [verifyChallenge, VCtx.init, orPred, getCommits, hg]
  rw [(VCtx.round1 E (⟨tl, commitBytes E.cd ds, [], 0⟩ : VCtx) _ rfl rfl rfl).1]

/-- In a field, `c·(P − S) = 0` for all Reps iff `c = 0` or all Reps hold. -/
theorem forall_mul_eq_iff {q : Nat} [Fact q.Prime] {ι : Type} (c : ZMod q) (l : List ι) (P S : ι → ZMod q) :
    (∀ i ∈ l, c * P i = c * S i) ↔ c = 0 ∨ ∀ i ∈ l, P i = S i := by
  constructor
  · intro h
    by_cases hc : c = 0
    · exact Or.inl hc
    · right
      intro i hi
      exact mul_left_cancel₀ hc (h i hi)
  · rintro (h | h)
    · intro i _; rw [h]; simp
    · intro i hi; rw [h i hi]

end Kyber.Sigma
