import KyberModel.Proto.Schnorr
import KyberModel.Proto.RingSig
import KyberModel.Props.C02
import Mathlib.Algebra.Module.Basic
import Mathlib.Algebra.Field.ZMod
import Mathlib.Tactic.Module
import Mathlib.Tactic.LinearCombination
/-
C08 helper lemmas: the discrete-log models of `Proto/Schnorr.lean` and `Proto/RingSig.lean` read in
`ZMod q`, and the abstract Schnorr algebra over any `Module (ZMod q) G`.
-/
namespace Kyber.SigAlg
open Kyber

variable {q : Nat}

/-- Equality of residues of naturals is equality in `ZMod q`. -/
theorem mod_eq_iff_cast (a b : Nat) : a % q = b % q ↔ (a : ZMod q) = (b : ZMod q) :=
  (ZMod.natCast_eq_natCast_iff' a b q).symm

theorem cast_eq_zero_iff_mod (a : Nat) : (a : ZMod q) = 0 ↔ a % q = 0 := by
  rw [ZMod.natCast_eq_zero_iff, Nat.dvd_iff_mod_eq_zero]

/-! ### Abstract Schnorr algebra -/
section abstract
variable {G : Type*} [AddCommGroup G] [Fact q.Prime] [Module (ZMod q) G]

theorem schnorr_complete_abs (B : G) (x k h : ZMod q) :
    (k + x * h) • B = k • B + h • (x • B) := by module

/-- Same `R`, `A`, `s`; two challenges: they coincide or the key is the identity. -/
theorem schnorr_two_challenges (B R A : G) (s h h' : ZMod q)
    (h1 : s • B = R + h • A) (h2 : s • B = R + h' • A) : h = h' ∨ A = 0 := by
  have : (h - h') • A = 0 := by
    have := h1.symm.trans h2
    rw [sub_smul]; rw [add_right_inj] at this; rw [this, sub_self]
  rcases smul_eq_zero.mp this with h0 | h0
  · left; exact sub_eq_zero.mp h0
  · right; exact h0

/-- Same `A`, `s`, challenge; two commitments: they are equal. -/
theorem schnorr_two_R (B R R' A : G) (s h : ZMod q)
    (h1 : s • B = R + h • A) (h2 : s • B = R' + h • A) : R = R' := by
  have := h1.symm.trans h2
  exact add_right_cancel this

/-- Same `R`, `A`, challenge; two responses: `s•B = s'•B`, so `s = s'` when `B ≠ 0`. -/
theorem schnorr_two_s (B R A : G) (hB : B ≠ 0) (s s' h : ZMod q)
    (h1 : s • B = R + h • A) (h2 : s' • B = R + h • A) : s = s' := by
  have : (s - s') • B = 0 := by rw [sub_smul, h1, h2, sub_self]
  rcases smul_eq_zero.mp this with h0 | h0
  · exact sub_eq_zero.mp h0
  · exact absurd h0 hB

/-- Same `R`, `s`, challenge; two keys: they are equal or the challenge is zero. -/
theorem schnorr_two_keys (B R A A' : G) (s h : ZMod q)
    (h1 : s • B = R + h • A) (h2 : s • B = R + h • A') : A = A' ∨ h = 0 := by
  have : h • (A - A') = 0 := by
    have := h1.symm.trans h2
    rw [smul_sub]; rw [add_right_inj] at this; rw [this, sub_self]
  rcases smul_eq_zero.mp this with h0 | h0
  · right; exact h0
  · left; exact sub_eq_zero.mp h0

end abstract

/-! ### The `Nat` model of Schnorr read in `ZMod q` -/

theorem equation_iff (A R s h : Nat) :
    Schnorr.equation q A R s h = true ↔ (s : ZMod q) = (R : ZMod q) + (h : ZMod q) * (A : ZMod q) := by
  unfold Schnorr.equation Schnorr.mulBase Schnorr.addPt Schnorr.mulPt
  rw [decide_eq_true_iff]
  have h1 : (R + h * A % q) % q = (R + h * A) % q := by
    rw [Nat.add_mod, Nat.mod_mod, ← Nat.add_mod]
  rw [h1]
  have h2 : s % q = (R + h * A) % q ↔ s % q = (R + h * A) % q % q := by rw [Nat.mod_mod]
  rw [h2, ← Nat.mod_mod s q] 
  rw [Nat.mod_mod, Nat.mod_mod, mod_eq_iff_cast]
  push_cast
  rfl

/-! ### Ring-signature chain lemmas -/
section ring
open RingSig

/-- `pg` read in `ZMod q`. -/
theorem pg_cast (c s L : Nat) : ((pg q c s L : Nat) : ZMod q) = (s : ZMod q) + c * L := by
  unfold pg
  simp [ZMod.natCast_mod]

theorem pg_lt (hq : 0 < q) (c s L : Nat) : pg q c s L < q := Nat.mod_lt _ hq

/-- `pg` only depends on the residue of the challenge. -/
theorem pg_congr (c c' s L : Nat) (h : c % q = c' % q) : pg q c s L = pg q c' s L := by
  unfold pg
  have : c * L % q = c' * L % q := by
    rw [Nat.mul_mod, h, ← Nat.mul_mod]
  rw [this]

theorem ph_congr (link : Link) (c c' s : Nat) (h : c % q = c' % q) : ph q link c s = ph q link c' s := by
  unfold ph
  cases link with
  | none => rfl
  | some bt =>
    simp only [Option.map_some]
    have : c * bt.2 % q = c' * bt.2 % q := by rw [Nat.mul_mod, h, ← Nat.mul_mod]
    rw [this]

theorem step_congr (H : Nat → Option Nat → Nat) (link : Link) (c c' : Nat) (sl : Nat × Nat)
    (h : c % q = c' % q) : step q H link c sl = step q H link c' sl := by
  unfold step
  rw [pg_congr c c' _ _ h, ph_congr link c c' _ h]

theorem chain_nil (H : Nat → Option Nat → Nat) (link : Link) (c : Nat) : chain q H link c [] = c := rfl

theorem chain_cons (H : Nat → Option Nat → Nat) (link : Link) (c : Nat) (x : Nat × Nat) (l : List (Nat × Nat)) :
    chain q H link c (x :: l) = chain q H link (step q H link c x) l := rfl

theorem chain_append (H : Nat → Option Nat → Nat) (link : Link) (c : Nat) (l₁ l₂ : List (Nat × Nat)) :
    chain q H link c (l₁ ++ l₂) = chain q H link (chain q H link c l₁) l₂ := by
  unfold chain; rw [List.foldl_append]

/-- The chain from a non-empty list only depends on the residue of its start. -/
theorem chain_congr (H : Nat → Option Nat → Nat) (link : Link) (c c' : Nat) (l : List (Nat × Nat))
    (h : c % q = c' % q) : chain q H link c l % q = chain q H link c' l % q := by
  cases l with
  | nil => simpa [chain_nil] using h
  | cons x l => rw [chain_cons, chain_cons, step_congr H link c c' x h]

/-- An oracle collision: two different queries with the same answer (mod `q`). -/
def Collision (q : Nat) (H : Nat → Option Nat → Nat) : Prop :=
  ∃ a b a' b', (a, b) ≠ (a', b') ∧ H a b % q = H a' b' % q

/-- Without a collision, equal answers come from equal queries. -/
theorem query_eq_of_no_collision {H : Nat → Option Nat → Nat} (hc : ¬ Collision q H)
    {a a' : Nat} {b b' : Option Nat} (h : H a b % q = H a' b' % q) : a = a' ∧ b = b' := by
  by_contra hne
  apply hc
  refine ⟨a, b, a', b', ?_, h⟩
  intro heq
  apply hne
  exact ⟨(Prod.mk.inj heq).1, (Prod.mk.inj heq).2⟩

variable [Fact q.Prime]

theorem pos_of_prime : 0 < q := (Fact.out : q.Prime).pos

/-- If two runs over the same positions (responses and keys, keys all non-zero) end in the same value
    and the oracle has no collision, they started from the same challenge. The link data of the two
    runs may differ. -/
theorem chain_start_eq_of_end_eq {H : Nat → Option Nat → Nat} (hc : ¬ Collision q H)
    (link link' : Link) (l : List (Nat × Nat)) (hL : ∀ x ∈ l, (x.2 : ZMod q) ≠ 0) :
    ∀ (c c' : Nat), chain q H link c l % q = chain q H link' c' l % q → c % q = c' % q := by
  induction l with
  | nil => intro c c' h; simpa [chain_nil] using h
  | cons x l ih =>
    intro c c' h
    rw [chain_cons, chain_cons] at h
    have hx : (x.2 : ZMod q) ≠ 0 := hL x (List.mem_cons_self)
    have h1 := ih (fun y hy => hL y (List.mem_cons_of_mem _ hy)) _ _ h
    unfold step at h1
    have h2 := (query_eq_of_no_collision hc h1).1
    have h3 : ((pg q c x.1 x.2 : Nat) : ZMod q) = ((pg q c' x.1 x.2 : Nat) : ZMod q) := by rw [h2]
    rw [pg_cast, pg_cast] at h3
    have h4 : ((c : ZMod q) - c') * x.2 = 0 := by linear_combination h3
    rcases mul_eq_zero.mp h4 with h5 | h5
    · exact (mod_eq_iff_cast c c').mpr (sub_eq_zero.mp h5)
    · exact absurd h5 hx

end ring
/-! ### Lemmas used by the ring theorems of `Props/C08.lean` -/
section ringHelpers
open RingSig
variable {q : Nat}

/-- The signer's response closes the ring: `PG = u•B` at the signer's position. -/
theorem pg_signer (hq : 0 < q) (x u c : Nat) :
    pg q c (Scalar.sub q u (Scalar.mul q x c)) (x % q) = u % q := by
  have h : ((pg q c (Scalar.sub q u (Scalar.mul q x c)) (x % q) : Nat) : ZMod q) = ((u % q : Nat) : ZMod q) := by
    rw [pg_cast, Scalar.sub_cast hq, Scalar.mul_cast]
    simp only [ZMod.natCast_mod]
    ring
  have := (mod_eq_iff_cast _ _).mpr h
  rwa [Nat.mod_eq_of_lt (pg_lt hq _ _ _), Nat.mod_mod] at this

theorem ph_signer (hq : 0 < q) (x u c b : Nat) :
    ph q (some (b, x * b % q)) c (Scalar.sub q u (Scalar.mul q x c)) = some (u * b % q) := by
  unfold ph
  simp only [Option.map_some, Option.some.injEq]
  have h : (((Scalar.sub q u (Scalar.mul q x c) * b % q + c * (x * b % q) % q) % q : Nat) : ZMod q)
      = ((u * b % q : Nat) : ZMod q) := by
    simp only [ZMod.natCast_mod, Nat.cast_add, Nat.cast_mul, Scalar.sub_cast hq, Scalar.mul_cast]
    ring
  have := (mod_eq_iff_cast _ _).mpr h
  rwa [Nat.mod_mod, Nat.mod_mod] at this

theorem zip_keys_ne_zero {q : Nat} {ss Ls : List Nat} (hL : ∀ L ∈ Ls, (L : ZMod q) ≠ 0) :
    ∀ x ∈ ss.zip Ls, (x.2 : ZMod q) ≠ 0 := by
  intro x hx
  exact hL x.2 (List.of_mem_zip hx).2

end ringHelpers

end Kyber.SigAlg
