import KyberModel.Lib.ShufflePair
import KyberModel.Lib.SigmaTop
/-
Helper lemmas for C15, part 4: sequence combination in `ZMod q`; the biffle predicate as an `Or` of
two scopes of the sigma-protocol framework.
-/
namespace Kyber.Shuffle
open Kyber Kyber.Scalar Kyber.Sigma

theorem seqCombine_cast {q : Nat} (nq : Nat) (hnq : 1 ≤ nq) (e : Nat → Nat) (P : Nat → Nat → Nat) (i : Nat) :
    ((seqCombine q nq e P i : Nat) : ZMod q) = ∑ j ∈ Finset.range nq, (e j : ZMod q) * (P j i : ZMod q) := by
  obtain ⟨m, rfl⟩ : ∃ m, nq = m + 1 := ⟨nq - 1, by omega⟩
  unfold seqCombine
  simp only [Nat.add_sub_cancel]
  induction m with
  | zero => simp [mul_cast]
  | succ m ih =>
    rw [List.range_succ, List.foldl_append, List.foldl_cons, List.foldl_nil, add_cast, ih (by omega), mul_cast,
      Finset.sum_range_succ _ (m + 1)]

/-- The biffle predicate is an `Or` of two `And`-scopes of the sigma-protocol framework. -/
def biffleScope0 : Scope := .all [⟨2, [⟨0, 0⟩]⟩, ⟨3, [⟨0, 1⟩]⟩, ⟨4, [⟨1, 0⟩]⟩, ⟨5, [⟨1, 1⟩]⟩]
def biffleScope1 : Scope := .all [⟨6, [⟨1, 0⟩]⟩, ⟨7, [⟨1, 1⟩]⟩, ⟨8, [⟨0, 0⟩]⟩, ⟨9, [⟨0, 1⟩]⟩]

theorem bifflePred_eq : bifflePred = orPred [biffleScope0, biffleScope1] := rfl

end Kyber.Shuffle
