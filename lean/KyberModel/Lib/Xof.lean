import KyberModel.Proto.Xof
import Mathlib.Tactic.Ring
import Mathlib.Tactic.Linarith
import Mathlib.Data.List.Basic
/-
Helper lemmas for C19 (XOF wrapper model). Property theorems are in Props/C19.lean.
-/
namespace Kyber.Xof

variable (prim : Prim) (hs : Nat)

/-- All `.bytes` outputs of a run, concatenated in order. -/
def outBytes : List Out → Bytes
  | [] => []
  | .bytes b :: rest => b ++ outBytes rest
  | _ :: rest => outBytes rest

theorem outBytes_append (a b : List Out) : outBytes (a ++ b) = outBytes a ++ outBytes b := by
  induction a with
  | nil => rfl
  | cons o a ih => cases o <;> simp [outBytes, ih]

@[simp] theorem readBytes_length (x : Xof) (n : Nat) : (readBytes prim x n).length = n := by
  simp [readBytes]

/-- `readBytes` depends on the primitive instance and the position only. -/
theorem readBytes_congr (x y : Xof) (n : Nat) (hk : x.key = y.key) (ha : x.absorbed = y.absorbed)
    (hp : x.pos = y.pos) : readBytes prim x n = readBytes prim y n := by
  simp [readBytes, hk, ha, hp]

theorem readBytes_add (x : Xof) (a b : Nat) :
    readBytes prim x (a + b) = readBytes prim x a ++ readBytes prim (doRead prim x a).1 b := by
  simp only [readBytes, doRead, List.range_add, List.map_append, List.map_map]
  congr 1
  apply List.map_congr_left
  intro i _
  simp [Nat.add_assoc]

theorem run_append (x : Xof) (o1 o2 : List Op) :
    run prim hs x (o1 ++ o2) =
      ((run prim hs (run prim hs x o1).1 o2).1, (run prim hs x o1).2 ++ (run prim hs (run prim hs x o1).1 o2).2) := by
  induction o1 generalizing x with
  | nil => simp [run]
  | cons op o1 ih => simp [run, ih]

/-- The fields no operation ever changes. -/
theorem step_seedTail (x : Xof) (op : Op) : (step prim hs x op).1.seedTail = x.seedTail := by
  cases op <;> simp [step, doRead] <;> split <;> simp

theorem step_resetKey (x : Xof) (op : Op) : (step prim hs x op).1.resetKey = x.resetKey := by
  cases op <;> simp [step, doRead] <;> split <;> simp

theorem run_seedTail (x : Xof) (ops : List Op) : (run prim hs x ops).1.seedTail = x.seedTail := by
  induction ops generalizing x with
  | nil => rfl
  | cons op ops ih => simp [run, ih, step_seedTail]

theorem run_resetKey (x : Xof) (ops : List Op) : (run prim hs x ops).1.resetKey = x.resetKey := by
  induction ops generalizing x with
  | nil => rfl
  | cons op ops ih => simp [run, ih, step_resetKey]

/-- Without `Reseed` the key never changes unless `Reset` re-keys, and then only to `resetKey`. -/
theorem step_key_of_ne_reseed (x : Xof) (op : Op) (h : op ≠ .reseed)
    (hk : ∀ k, x.resetKey = some k → k = x.key) : (step prim hs x op).1.key = x.key := by
  cases op with
  | reseed => exact absurd rfl h
  | reset =>
    simp only [step]
    cases hr : x.resetKey with
    | none => simp
    | some k => simp [hk k hr]
  | write b => simp only [step]; split <;> simp
  | read n => simp [step, doRead]
  | xor dl src => simp only [step]; split <;> simp [doRead]

/-- With an empty split size (keccak) the key is always empty. -/
theorem splitSeed_zero_fst (seed : Bytes) : (splitSeed 0 seed).1 = [] := by
  unfold splitSeed
  split
  · simp
  · have : seed.length = 0 := by omega
    simp [List.length_eq_zero_iff.mp this]

theorem splitSeed_zero_snd (seed : Bytes) : (splitSeed 0 seed).2 = seed := by
  unfold splitSeed
  split
  · simp
  · have : seed.length = 0 := by omega
    simp [List.length_eq_zero_iff.mp this]

theorem step_key_zero (x : Xof) (op : Op) (hk : x.key = [])
    (hr : ∀ k, x.resetKey = some k → k = []) : (step prim 0 x op).1.key = [] := by
  cases op with
  | reseed => simp [step, splitSeed_zero_fst]
  | reset =>
    simp only [step]
    cases h : x.resetKey with
    | none => simpa using hk
    | some k => simp [hr k h]
  | write b => simp only [step]; split <;> simp [hk]
  | read n => simp [step, doRead, hk]
  | xor dl src => simp only [step]; split <;> simp [doRead, hk]

/-- Same primitive instance, same position, same mode (the retained seed may differ). -/
def Sim (x y : Xof) : Prop :=
  x.key = y.key ∧ x.absorbed = y.absorbed ∧ x.pos = y.pos ∧ x.reading = y.reading

def NoReset (ops : List Op) : Prop := ∀ op ∈ ops, op ≠ Op.reset

theorem clone_sim (x : Xof) : Sim (clone x) x := ⟨rfl, rfl, rfl, rfl⟩

theorem sim_step (x y : Xof) (op : Op) (h : Sim x y) (hop : op ≠ .reset) :
    (step prim hs x op).2 = (step prim hs y op).2 ∧ Sim (step prim hs x op).1 (step prim hs y op).1 := by
  obtain ⟨hk, ha, hp, hr⟩ := h
  cases op with
  | reset => exact absurd rfl hop
  | write b =>
    simp only [step, hr]
    split <;> simp [Sim, hk, ha, hp, hr]
  | read n =>
    simp only [step, doRead, readBytes_congr prim x y n hk ha hp]
    simp [Sim, hk, ha, hp]
  | xor dl src =>
    simp only [step, doRead, readBytes_congr prim x y src.length hk ha hp]
    split <;> simp [Sim, hk, ha, hp, hr]
  | reseed =>
    simp only [step, doRead, readBytes_congr prim x y reseedLen hk ha hp]
    simp [Sim]

theorem run_writes (x : Xof) (ws : List Bytes) (h : x.reading = false) :
    (run prim hs x (ws.map Op.write)).1 = { x with absorbed := x.absorbed ++ ws.flatten } := by
  induction ws generalizing x with
  | nil => simp [run]
  | cons w ws ih =>
    simp only [List.map_cons, run, step, h]
    rw [ih]
    · simp
    · simp

end Kyber.Xof
