import KyberModel.Proto.Vss
import KyberModel.Lib.ShareCast
/-
Algebraic side of C10: the share equation in `ZMod q`, honest deals satisfy it.
-/
namespace Kyber.Vss
open Polynomial Kyber.Scalar Kyber.Share

variable {q : Nat}

theorem evalCommit_cast (cs : List Nat) (i : Nat) :
    ((evalCommit q cs i : Nat) : ZMod q) = (toPoly q cs).eval ((i : ZMod q) + 1) := by
  unfold evalCommit
  rw [pubEvalAt_eq_evalAt, evalAt_cast, xEval_cast]

theorem evalCommit_lt (hq : 0 < q) (cs : List Nat) (i : Nat) : evalCommit q cs i < q := by
  unfold evalCommit; rw [pubEvalAt_eq_evalAt]; exact evalAt_lt hq _ _

theorem evalPoly_cast (f : List Nat) (i : Nat) :
    ((evalPoly q f i : Nat) : ZMod q) = (toPoly q f).eval ((i : ZMod q) + 1) := by
  unfold evalPoly; rw [evalAt_cast, xEval_cast]

end Kyber.Vss

namespace Kyber.Vss
open Polynomial Kyber.Scalar Kyber.Share

/-- The share of a deal lies on the committed polynomial: `f_i·G (+ g_i·H) = Σ_k (i+1)^k · C_k`,
    read in the exponent (`ZMod q`, `H = h·G`). -/
def OnCommitted (cfg : Cfg) (d : Deal) : Prop :=
  match cfg.variant with
  | .pedersen => ((d.v : Nat) : ZMod cfg.q) = (toPoly cfg.q d.commits).eval ((d.i : ZMod cfg.q) + 1)
  | .rabin => ((d.v : Nat) : ZMod cfg.q) + ((d.rv : Nat) : ZMod cfg.q) * ((cfg.h : Nat) : ZMod cfg.q)
      = (toPoly cfg.q d.commits).eval ((d.i : ZMod cfg.q) + 1)

theorem shareCommit_lt (cfg : Cfg) (hq : 0 < cfg.q) (d : Deal) : shareCommit cfg d < cfg.q := by
  unfold shareCommit
  cases cfg.variant
  · exact Nat.mod_lt _ hq
  · exact add_lt hq _ _

theorem shareOk_iff_onCommitted (cfg : Cfg) (hq : 0 < cfg.q) (d : Deal) :
    shareOk cfg d = true ↔ OnCommitted cfg d := by
  unfold shareOk
  rw [beq_iff_eq, eq_iff_cast_eq _ _ (shareCommit_lt cfg hq d) (evalCommit_lt hq _ _), evalCommit_cast]
  unfold OnCommitted shareCommit
  cases cfg.variant
  · simp only [ZMod.natCast_mod]
  · simp only [add_cast, mul_cast, ZMod.natCast_mod]

end Kyber.Vss

namespace Kyber.Vss
open Polynomial Kyber.Scalar Kyber.Share

variable {q : Nat}

theorem toPoly_map_mod (f : List Nat) : toPoly q (f.map (· % q)) = toPoly q f := by
  induction f with
  | nil => rfl
  | cons c f ih => simp only [List.map_cons, toPoly_cons, ih, ZMod.natCast_mod]

theorem toPoly_zipWith_blind (h : Nat) (f g : List Nat) (hlen : f.length = g.length) :
    toPoly q (List.zipWith (fun a b => add q (a % q) (mul q b h)) f g)
      = toPoly q f + C ((h : Nat) : ZMod q) * toPoly q g := by
  induction f generalizing g with
  | nil => cases g with
    | nil => simp
    | cons _ _ => simp at hlen
  | cons a f ih =>
    cases g with
    | nil => simp at hlen
    | cons b g =>
      simp only [List.length_cons, Nat.add_right_cancel_iff] at hlen
      simp only [List.zipWith_cons_cons, toPoly_cons, ih g hlen, add_cast, mul_cast, ZMod.natCast_mod, map_add, map_mul]
      ring

/-- An honest dealer's deal satisfies the share equation (P: `f(i+1)·G = Σ (i+1)^k f_k·G`;
    R: `f(i+1)·G + g(i+1)·H = Σ (i+1)^k (f_k·G + g_k·H)`). -/
theorem honestDeal_shareOk (cfg : Cfg) (hq : 0 < cfg.q) (sid t : Nat) (f g : List Nat)
    (hlen : cfg.variant = .rabin → f.length = g.length) (i : Nat) :
    shareOk cfg (honestDeal cfg sid t f g i) = true := by
  rw [shareOk_iff_onCommitted cfg hq]
  unfold OnCommitted honestDeal honestCommits
  cases hv : cfg.variant with
  | pedersen => simp only [evalPoly_cast, toPoly_map_mod]
  | rabin =>
    simp only [evalPoly_cast, toPoly_zipWith_blind cfg.h f g (hlen hv), eval_add, eval_mul, eval_C]
    ring

end Kyber.Vss
