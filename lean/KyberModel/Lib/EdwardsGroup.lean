import KyberModel.Lib.EdwardsLaw
import Mathlib.Algebra.Group.Basic
import Mathlib.Tactic.Abel
/-
Library E (continued): associativity and the `AddCommGroup` instance on the points of a complete
twisted Edwards curve.
-/
namespace Kyber.EdLaw

variable {F : Type*} [Field F]

/-- Points of `a x² + y² = 1 + d x² y²`. -/
@[ext] structure Point (a d : F) where
  x : F
  y : F
  on : OnCurve a d x y

variable {a d : F}

theorem zero_on : OnCurve a d (0 : F) 1 := by unfold OnCurve; ring

theorem neg_on {x y : F} (h : OnCurve a d x y) : OnCurve a d (-x) y := by
  unfold OnCurve at *; linear_combination h

/-- Associativity of the addition formulas on curve points, x-coordinate. -/
theorem assoc_x (hc : Complete a d) {x1 y1 x2 y2 x3 y3 : F}
    (h1 : OnCurve a d x1 y1) (h2 : OnCurve a d x2 y2) (h3 : OnCurve a d x3 y3) :
    addX d (addX d x1 y1 x2 y2) (addY a d x1 y1 x2 y2) x3 y3
      = addX d x1 y1 (addX d x2 y2 x3 y3) (addY a d x2 y2 x3 y3) := by
  have h12 := add_onCurve hc h1 h2
  have h23 := add_onCurve hc h2 h3
  have hA12 := one_add_ne_zero hc h1 h2
  have hB12 := one_sub_ne_zero hc h1 h2
  have hA23 := one_add_ne_zero hc h2 h3
  have hB23 := one_sub_ne_zero hc h2 h3
  have hL := one_add_ne_zero hc h12 h3
  have hR := one_add_ne_zero hc h1 h23
  have key := assoc_x_poly x1 y1 x2 y2 x3 y3 a d h1 h2 h3
  unfold addX addY at hL hR
  conv_lhs => rw [addX.eq_1 d x1 y1 x2 y2, addY.eq_1 a d x1 y1 x2 y2]
  conv_rhs => rw [addX.eq_1 d x2 y2 x3 y3, addY.eq_1 a d x2 y2 x3 y3]
  obtain ⟨A, hA⟩ : ∃ A, A = 1 + d * x1 * x2 * y1 * y2 := ⟨_, rfl⟩
  obtain ⟨B, hB⟩ : ∃ B, B = 1 - d * x1 * x2 * y1 * y2 := ⟨_, rfl⟩
  obtain ⟨A', hA'⟩ : ∃ A', A' = 1 + d * x2 * x3 * y2 * y3 := ⟨_, rfl⟩
  obtain ⟨B', hB'⟩ : ∃ B', B' = 1 - d * x2 * x3 * y2 * y3 := ⟨_, rfl⟩
  rw [← hA, ← hB] at hL ⊢
  rw [← hA', ← hB'] at hR ⊢
  rw [← hA] at hA12; rw [← hB] at hB12; rw [← hA'] at hA23; rw [← hB'] at hB23
  rw [addX_frac_left _ _ _ _ _ _ _ hA12 hB12, addX_frac_right _ _ _ _ _ _ _ hA23 hB23]
  have hLD : A * B + d * (x1 * y2 + y1 * x2) * (y1 * y2 - a * x1 * x2) * x3 * y3 ≠ 0 := by
    intro h0; apply hL
    have : 1 + d * ((x1 * y2 + y1 * x2) / A) * x3 * ((y1 * y2 - a * x1 * x2) / B) * y3
        = (A * B + d * (x1 * y2 + y1 * x2) * (y1 * y2 - a * x1 * x2) * x3 * y3) / (A * B) := by
      field_simp
    rw [this, h0, zero_div]
  have hRD : A' * B' + d * x1 * y1 * (x2 * y3 + y2 * x3) * (y2 * y3 - a * x2 * x3) ≠ 0 := by
    intro h0; apply hR
    have : 1 + d * x1 * ((x2 * y3 + y2 * x3) / A') * y1 * ((y2 * y3 - a * x2 * x3) / B')
        = (A' * B' + d * x1 * y1 * (x2 * y3 + y2 * x3) * (y2 * y3 - a * x2 * x3)) / (A' * B') := by
      field_simp
    rw [this, h0, zero_div]
  rw [div_eq_div_iff hLD hRD]
  subst hA hB hA' hB'
  linear_combination key

/-- Associativity, y-coordinate. -/
theorem assoc_y (hc : Complete a d) {x1 y1 x2 y2 x3 y3 : F}
    (h1 : OnCurve a d x1 y1) (h2 : OnCurve a d x2 y2) (h3 : OnCurve a d x3 y3) :
    addY a d (addX d x1 y1 x2 y2) (addY a d x1 y1 x2 y2) x3 y3
      = addY a d x1 y1 (addX d x2 y2 x3 y3) (addY a d x2 y2 x3 y3) := by
  have h12 := add_onCurve hc h1 h2
  have h23 := add_onCurve hc h2 h3
  have hA12 := one_add_ne_zero hc h1 h2
  have hB12 := one_sub_ne_zero hc h1 h2
  have hA23 := one_add_ne_zero hc h2 h3
  have hB23 := one_sub_ne_zero hc h2 h3
  have hL := one_sub_ne_zero hc h12 h3
  have hR := one_sub_ne_zero hc h1 h23
  have key := assoc_y_poly x1 y1 x2 y2 x3 y3 a d h1 h2 h3
  unfold addX addY at hL hR
  conv_lhs => rw [addX.eq_1 d x1 y1 x2 y2, addY.eq_1 a d x1 y1 x2 y2]
  conv_rhs => rw [addX.eq_1 d x2 y2 x3 y3, addY.eq_1 a d x2 y2 x3 y3]
  obtain ⟨A, hA⟩ : ∃ A, A = 1 + d * x1 * x2 * y1 * y2 := ⟨_, rfl⟩
  obtain ⟨B, hB⟩ : ∃ B, B = 1 - d * x1 * x2 * y1 * y2 := ⟨_, rfl⟩
  obtain ⟨A', hA'⟩ : ∃ A', A' = 1 + d * x2 * x3 * y2 * y3 := ⟨_, rfl⟩
  obtain ⟨B', hB'⟩ : ∃ B', B' = 1 - d * x2 * x3 * y2 * y3 := ⟨_, rfl⟩
  rw [← hA, ← hB] at hL ⊢
  rw [← hA', ← hB'] at hR ⊢
  rw [← hA] at hA12; rw [← hB] at hB12; rw [← hA'] at hA23; rw [← hB'] at hB23
  rw [addY_frac_left _ _ _ _ _ _ _ _ hA12 hB12, addY_frac_right _ _ _ _ _ _ _ _ hA23 hB23]
  have hLD : A * B - d * (x1 * y2 + y1 * x2) * (y1 * y2 - a * x1 * x2) * x3 * y3 ≠ 0 := by
    intro h0; apply hL
    have : 1 - d * ((x1 * y2 + y1 * x2) / A) * x3 * ((y1 * y2 - a * x1 * x2) / B) * y3
        = (A * B - d * (x1 * y2 + y1 * x2) * (y1 * y2 - a * x1 * x2) * x3 * y3) / (A * B) := by
      field_simp
    rw [this, h0, zero_div]
  have hRD : A' * B' - d * x1 * y1 * (x2 * y3 + y2 * x3) * (y2 * y3 - a * x2 * x3) ≠ 0 := by
    intro h0; apply hR
    have : 1 - d * x1 * ((x2 * y3 + y2 * x3) / A') * y1 * ((y2 * y3 - a * x2 * x3) / B')
        = (A' * B' - d * x1 * y1 * (x2 * y3 + y2 * x3) * (y2 * y3 - a * x2 * x3)) / (A' * B') := by
      field_simp
    rw [this, h0, zero_div]
  rw [div_eq_div_iff hLD hRD]
  subst hA hB hA' hB'
  linear_combination key

/-! ### The group -/

theorem addX_comm (x1 y1 x2 y2 : F) : addX d x1 y1 x2 y2 = addX d x2 y2 x1 y1 := by
  unfold addX; congr 1 <;> ring

theorem addY_comm (x1 y1 x2 y2 : F) : addY a d x1 y1 x2 y2 = addY a d x2 y2 x1 y1 := by
  unfold addY; congr 1 <;> ring

theorem addX_zero (x y : F) : addX d x y 0 1 = x := by unfold addX; simp
theorem addY_zero (x y : F) : addY a d x y 0 1 = y := by unfold addY; simp

theorem addX_neg (x y : F) : addX d x y (-x) y = 0 := by
  unfold addX
  have : x * y + y * -x = 0 := by ring
  rw [this, zero_div]

theorem addY_neg (hc : Complete a d) {x y : F} (h : OnCurve a d x y) : addY a d x y (-x) y = 1 := by
  have hne := one_sub_ne_zero hc h (neg_on h)
  unfold addY
  rw [div_eq_one_iff_eq hne]
  unfold OnCurve at h
  linear_combination h

section Group
variable [hc : Fact (Complete a d)]

instance : Zero (Point a d) := ⟨⟨0, 1, zero_on⟩⟩
instance : Neg (Point a d) := ⟨fun P => ⟨-P.x, P.y, neg_on P.on⟩⟩
instance : Add (Point a d) :=
  ⟨fun P Q => ⟨addX d P.x P.y Q.x Q.y, addY a d P.x P.y Q.x Q.y, add_onCurve hc.out P.on Q.on⟩⟩

omit hc in
@[simp] theorem zero_x : (0 : Point a d).x = 0 := rfl
omit hc in
@[simp] theorem zero_y : (0 : Point a d).y = 1 := rfl
omit hc in
@[simp] theorem neg_x (P : Point a d) : (-P).x = -P.x := rfl
omit hc in
@[simp] theorem neg_y (P : Point a d) : (-P).y = P.y := rfl
@[simp] theorem add_x (P Q : Point a d) : (P + Q).x = addX d P.x P.y Q.x Q.y := rfl
@[simp] theorem add_y (P Q : Point a d) : (P + Q).y = addY a d P.x P.y Q.x Q.y := rfl

/-- The points of a complete twisted Edwards curve form an abelian group under the unified addition law. -/
instance : AddCommGroup (Point a d) where
  add_assoc P Q R := by
    ext
    · exact assoc_x hc.out P.on Q.on R.on
    · exact assoc_y hc.out P.on Q.on R.on
  zero_add P := by
    ext
    · simp only [add_x, zero_x, zero_y]; rw [addX_comm, addX_zero]
    · simp only [add_y, zero_x, zero_y]; rw [addY_comm, addY_zero]
  add_zero P := by
    ext
    · simp only [add_x, zero_x, zero_y]; rw [addX_zero]
    · simp only [add_y, zero_x, zero_y]; rw [addY_zero]
  add_comm P Q := by
    ext
    · exact addX_comm _ _ _ _
    · exact addY_comm _ _ _ _
  neg_add_cancel P := by
    ext
    · simp only [add_x, neg_x, neg_y, zero_x]
      rw [addX_comm]; exact addX_neg _ _
    · simp only [add_y, neg_x, neg_y, zero_y]
      rw [addY_comm]; exact addY_neg hc.out P.on
  nsmul := nsmulRec
  zsmul := zsmulRec

end Group

end Kyber.EdLaw
