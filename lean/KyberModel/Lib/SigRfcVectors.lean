import KyberModel.Proto.Eddsa
/-
C08 — TESTS (not theorems about all inputs): RFC 8032 §7.1 test vectors evaluated by the Lean kernel on
the EdDSA model (`decide +kernel`: SHA-512, clamping, two scalar multiplications, encodings), and the
verifier models on the same vector. (Vectors 2, 3 and SHA(abc) of §7.1 go through the compiled model in
every correspondence run: harness/cmd/kcheck/sig_eddsa.go, `rfc8032Vectors`.) They tie the typed-in constants of the model (SHA-512 round
constants, curve constants, base point, `L`) to the RFC independently of the Go correspondence run.
-/
namespace Kyber.C08.Vectors
open Kyber Kyber.Eddsa

def seed1 : Bytes := encodeBE 32 0x9d61b19deffd5a60ba844af492ec2cc44449c5697b326919703bac031cae7f60
def pub1 : Bytes := encodeBE 32 0xd75a980182b10ab7d54bfed3c964073a0ee172f3daa62325af021a68f707511a
def sig1 : Bytes := encodeBE 64 0xe5564300c360ac729086e2cc806e828a84877f1eb8e5d974d873e065224901555fb8821590a33bacc61e39701cf9b46bd25bf5f0595bbe24655141438e7a100b

/-- TEST 1 (empty message): public key. -/
theorem test_rfc8032_1_pub : pubBytes (keygen seed1) = pub1 := by decide +kernel
/-- TEST 1: signature bytes, model of `sign/eddsa`. -/
theorem test_rfc8032_1_sign : sign seed1 [] = sig1 := by decide +kernel
/-- TEST 1: accepted by the model of `eddsa.VerifyWithChecks`. -/
theorem test_rfc8032_1_verify : verify pub1 [] sig1 = .ok := by decide +kernel
/-- TEST 1: accepted by the model of `crypto/ed25519.Verify`. -/
theorem test_rfc8032_1_goVerify : goVerify pub1 [] sig1 = true := by decide +kernel
/-- The hypothesis `nonce ≠ 0 (mod L)` of `eddsa_complete` is satisfiable (TEST 1). -/
theorem test_rfc8032_1_nonce_ne_zero :
    decodeLE (Sha512.hash ((keygen seed1).prefix_ ++ [])) % Ed25519.L ≠ 0 := by decide +kernel
/-- `L•B = O` in the executable curve model (one instance of what `EdLaws.L_base` asserts). -/
theorem test_L_base : Ed25519.smul Ed25519.L Ed25519.base = Edwards.zero := by decide +kernel

end Kyber.C08.Vectors
