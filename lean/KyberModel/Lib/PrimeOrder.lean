import Mathlib.GroupTheory.OrderOfElement
import Mathlib.Data.ZMod.Basic
import Mathlib.Algebra.Module.ZMod
/-
Library A: an element of prime order `q` in an additive group: scalar multiples depend only on the
scalar modulo `q`, and `a • B = 0 ↔ q ∣ a`.
-/
namespace Kyber.PrimeOrder

variable {G : Type*} [AddCommGroup G]

theorem nsmul_mod {B : G} {q : ℕ} (hq : q • B = 0) (a : ℕ) : (a % q) • B = a • B := by
  conv_rhs => rw [← Nat.div_add_mod a q, add_smul, mul_comm, mul_smul, hq, smul_zero, zero_add]

theorem nsmul_eq_zero_iff {B : G} {q : ℕ} (hB : addOrderOf B = q) (a : ℕ) : a • B = 0 ↔ q ∣ a := by
  rw [← hB]; exact addOrderOf_dvd_iff_nsmul_eq_zero.symm

theorem nsmul_eq_iff {B : G} {q : ℕ} (hB : addOrderOf B = q) (a b : ℕ) :
    a • B = b • B ↔ a % q = b % q := by
  rw [← hB]
  rw [nsmul_eq_nsmul_iff_modEq]
  rfl

/-- `(q - 1) • P = -P` for any `P` killed by `q`. -/
theorem pred_nsmul {P : G} {q : ℕ} (hq0 : 0 < q) (hq : q • P = 0) : (q - 1) • P = -P := by
  have : (q - 1) • P + P = 0 := by
    rw [← succ_nsmul]
    have : q - 1 + 1 = q := by omega
    rw [this, hq]
  exact eq_neg_of_add_eq_zero_left this

end Kyber.PrimeOrder
