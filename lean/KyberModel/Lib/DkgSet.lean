import KyberModel.Proto.Dkg
import Mathlib.Data.List.Perm.Basic
import Mathlib.Data.List.Nodup
import Mathlib.Data.List.Perm.Lattice
import Mathlib.Data.List.Induction
/-
Helper lemmas for Props/C11.lean, part 2: the `Protocol` layer's packet `set` in closed form.
-/
namespace Kyber.Dkg

variable {α : Type} [DecidableEq α]

theorem lookup_cons_ne {k i : Nat} (v : α) (l : List (Nat × α)) (h : i ≠ k) :
    ((k, v) :: l).lookup i = l.lookup i := by
  have : (i == k) = false := by simpa using h
  simp [List.lookup, this]

theorem lookup_cons_self (k : Nat) (v : α) (l : List (Nat × α)) : ((k, v) :: l).lookup k = some v := by
  simp [List.lookup]

theorem lookup_append_single' (l : List (Nat × α)) (k : Nat) (v : α) (i : Nat) :
    (l ++ [(k, v)]).lookup i = match l.lookup i with
      | some x => some x
      | none => if i = k then some v else none := by
  induction l with
  | nil =>
    by_cases h : i = k
    · subst h; simp [List.lookup]
    · simp [lookup_cons_ne v [] h, h]
  | cons p l ih =>
    obtain ⟨a, c⟩ := p
    by_cases h : i = a
    · subst h; simp [lookup_cons_self]
    · simp only [List.cons_append, lookup_cons_ne _ _ h, ih]

theorem lookup_filter_ne (l : List (Nat × α)) (k i : Nat) :
    (l.filter (fun e => e.1 != k)).lookup i = if i = k then none else l.lookup i := by
  induction l with
  | nil => simp
  | cons p l ih =>
    obtain ⟨a, c⟩ := p
    by_cases hak : a = k
    · subst hak
      simp only [List.filter_cons, bne_self_eq_false, Bool.false_eq_true, if_false, ih]
      by_cases hia : i = a
      · simp [hia]
      · simp [hia, lookup_cons_ne c l hia]
    · have : (a != k) = true := by simpa using hak
      simp only [List.filter_cons, this, if_true]
      by_cases hia : i = a
      · subst hia; simp [lookup_cons_self, hak]
      · simp only [lookup_cons_ne _ _ hia, ih]

theorem keys_filter_nodup (l : List (Nat × α)) (k : Nat) (h : (l.map Prod.fst).Nodup) :
    ((l.filter (fun e => e.1 != k)).map Prod.fst).Nodup :=
  h.sublist ((List.filter_sublist).map _)

theorem lookup_none_iff (l : List (Nat × α)) (i : Nat) : l.lookup i = none ↔ i ∉ l.map Prod.fst := by
  induction l with
  | nil => simp
  | cons p l ih =>
    obtain ⟨a, c⟩ := p
    by_cases h : i = a
    · subst h; simp [lookup_cons_self]
    · simp [lookup_cons_ne c l h, ih, h]

theorem mem_iff_lookup (l : List (Nat × α)) (hnd : (l.map Prod.fst).Nodup) (i : Nat) (v : α) :
    (i, v) ∈ l ↔ l.lookup i = some v := by
  induction l with
  | nil => simp
  | cons p l ih =>
    obtain ⟨a, c⟩ := p
    simp only [List.map_cons, List.nodup_cons] at hnd
    by_cases h : i = a
    · subst h
      simp only [lookup_cons_self, Option.some.injEq, List.mem_cons, Prod.mk.injEq, true_and]
      constructor
      · rintro (h | h)
        · exact h.symm
        · exact absurd (List.mem_map.mpr ⟨(i, v), h, rfl⟩) hnd.1
      · intro h; exact Or.inl h.symm
    · simp only [lookup_cons_ne _ _ h, List.mem_cons, Prod.mk.injEq, h, false_and, false_or]
      exact ih hnd.2

/-- A push list: `(signature verifies, sender index, packet)`. -/
abbrev Pushes (α : Type) := List (Bool × Nat × α)

def PSet.ofPushes (l : Pushes α) : PSet α := l.foldl (fun s e => s.push e.1 e.2.1 e.2.2) PSet.empty

theorem ofPushes_snoc (l : Pushes α) (e : Bool × Nat × α) :
    PSet.ofPushes (l ++ [e]) = (PSet.ofPushes l).push e.1 e.2.1 e.2.2 := by
  unfold PSet.ofPushes; rw [List.foldl_append]; rfl

/-- **The packet set in closed form.** After any sequence of pushes:
* sender `i` is marked bad iff two *different* verified packets of `i` were pushed;
* otherwise the set holds for `i` exactly the verified packet `i` sent (if any);
* stored senders are pairwise different. -/
theorem ofPushes_spec (l : Pushes α) :
    (∀ i, (PSet.ofPushes l).bad.contains i = true ↔ ∃ p q, (true, i, p) ∈ l ∧ (true, i, q) ∈ l ∧ p ≠ q) ∧
    (∀ i p, (PSet.ofPushes l).vals.lookup i = some p ↔
        (true, i, p) ∈ l ∧ ∀ q, (true, i, q) ∈ l → q = p) ∧
    ((PSet.ofPushes l).vals.map Prod.fst).Nodup := by
  induction l using List.reverseRecOn with
  | nil =>
    refine ⟨?_, ?_, ?_⟩
    · intro i; simp [PSet.ofPushes, PSet.empty]
    · intro i p; simp [PSet.ofPushes, PSet.empty]
    · simp [PSet.ofPushes, PSet.empty]
  | append_singleton l e ih =>
    obtain ⟨ihb, ihv, ihn⟩ := ih
    obtain ⟨sg, k, pk⟩ := e
    rw [ofPushes_snoc]
    set s := PSet.ofPushes l with hs
    simp only [PSet.push]
    cases sg with
    | false =>
      simp only [Bool.not_false, if_true]
      refine ⟨?_, ?_, ihn⟩
      · intro i
        rw [ihb i]
        simp only [List.mem_append, List.mem_singleton, Prod.mk.injEq, Bool.true_eq_false, false_and, or_false]
      · intro i p
        rw [ihv i p]
        simp only [List.mem_append, List.mem_singleton, Prod.mk.injEq, Bool.true_eq_false, false_and, or_false]
    | true =>
      simp only [Bool.not_true, Bool.false_eq_true, if_false]
      have hmem : ∀ i q, (true, i, q) ∈ l ++ [(true, k, pk)] ↔ (true, i, q) ∈ l ∨ (i = k ∧ q = pk) := by
        intro i q; simp [List.mem_append]
      by_cases hbad : s.bad.contains k = true
      · -- already bad: nothing changes, and the new packet does not change the verdicts
        simp only [hbad, if_true]
        obtain ⟨p0, q0, h1, h2, h3⟩ := (ihb k).mp hbad
        refine ⟨?_, ?_, ihn⟩
        · intro i
          rw [ihb i]
          constructor
          · rintro ⟨p, q, a, b, c⟩; exact ⟨p, q, (hmem _ _).mpr (Or.inl a), (hmem _ _).mpr (Or.inl b), c⟩
          · rintro ⟨p, q, a, b, c⟩
            by_cases hik : i = k
            · subst hik; exact ⟨p0, q0, h1, h2, h3⟩
            · rcases (hmem _ _).mp a with a | ⟨a, _⟩
              · rcases (hmem _ _).mp b with b | ⟨b, _⟩
                · exact ⟨p, q, a, b, c⟩
                · exact absurd b hik
              · exact absurd a hik
        · intro i p
          rw [ihv i p]
          by_cases hik : i = k
          · subst hik
            constructor
            · rintro ⟨a, b⟩
              exfalso
              have e1 := b p0 h1
              have e2 := b q0 h2
              exact h3 (e1.trans e2.symm)
            · rintro ⟨a, b⟩
              exfalso
              have e1 := b p0 ((hmem _ _).mpr (Or.inl h1))
              have e2 := b q0 ((hmem _ _).mpr (Or.inl h2))
              exact h3 (e1.trans e2.symm)
          · constructor
            · rintro ⟨a, b⟩
              refine ⟨(hmem _ _).mpr (Or.inl a), fun q hq => ?_⟩
              rcases (hmem _ _).mp hq with hq | ⟨hq, _⟩
              · exact b q hq
              · exact absurd hq hik
            · rintro ⟨a, b⟩
              rcases (hmem _ _).mp a with a | ⟨a, _⟩
              · exact ⟨a, fun q hq => b q ((hmem _ _).mpr (Or.inl hq))⟩
              · exact absurd a hik
      · simp only [hbad, Bool.false_eq_true, if_false]
        have hnb : ¬ ∃ p q, (true, k, p) ∈ l ∧ (true, k, q) ∈ l ∧ p ≠ q := fun h => hbad ((ihb k).mpr h)
        cases hlk : s.vals.lookup k with
        | none =>
          -- first verified packet of k
          simp only
          have hnone : ∀ q, (true, k, q) ∉ l := by
            intro q hq
            -- some packet of k is in l and k is not bad, so the lookup would be `some`
            have : ∀ q', (true, k, q') ∈ l → q' = q := by
              intro q' hq'
              by_contra hne
              exact hnb ⟨q', q, hq', hq, hne⟩
            have := (ihv k q).mpr ⟨hq, this⟩
            rw [hlk] at this; cases this
          refine ⟨?_, ?_, ?_⟩
          · intro i
            rw [ihb i]
            constructor
            · rintro ⟨p, q, a, b, c⟩; exact ⟨p, q, (hmem _ _).mpr (Or.inl a), (hmem _ _).mpr (Or.inl b), c⟩
            · rintro ⟨p, q, a, b, c⟩
              rcases (hmem _ _).mp a with a1 | ⟨a1, a2⟩
              · rcases (hmem _ _).mp b with b1 | ⟨b1, _⟩
                · exact ⟨p, q, a1, b1, c⟩
                · rw [b1] at a1; exact absurd a1 (hnone _)
              · rcases (hmem _ _).mp b with b1 | ⟨_, b2⟩
                · rw [a1] at b1; exact absurd b1 (hnone _)
                · exact absurd (a2.trans b2.symm) c
          · intro i p
            rw [lookup_append_single']
            by_cases hik : i = k
            · subst hik
              rw [hlk]
              simp only [if_true, Option.some.injEq]
              constructor
              · rintro rfl
                refine ⟨(hmem _ _).mpr (Or.inr ⟨rfl, rfl⟩), fun q hq => ?_⟩
                rcases (hmem _ _).mp hq with hq | ⟨_, rfl⟩
                · exact absurd hq (hnone _)
                · rfl
              · rintro ⟨a, _⟩
                rcases (hmem _ _).mp a with a | ⟨_, rfl⟩
                · exact absurd a (hnone _)
                · rfl
            · cases hli : s.vals.lookup i with
              | none =>
                simp only [hik, if_false]
                constructor
                · intro h; cases h
                · rintro ⟨a, b⟩
                  rcases (hmem _ _).mp a with a | ⟨a, _⟩
                  · have := (ihv i p).mpr ⟨a, fun q hq => b q ((hmem _ _).mpr (Or.inl hq))⟩
                    rw [hli] at this; cases this
                  · exact absurd a hik
              | some x =>
                simp only [Option.some.injEq]
                have hx := (ihv i x).mp hli
                constructor
                · rintro rfl
                  refine ⟨(hmem _ _).mpr (Or.inl hx.1), fun q hq => ?_⟩
                  rcases (hmem _ _).mp hq with hq | ⟨hq, _⟩
                  · exact hx.2 q hq
                  · exact absurd hq hik
                · rintro ⟨a, b⟩
                  exact (b x ((hmem _ _).mpr (Or.inl hx.1))).symm ▸ rfl
          · simp only [List.map_append, List.map_cons, List.map_nil]
            rw [List.nodup_append]
            refine ⟨ihn, List.nodup_singleton _, ?_⟩
            intro a ha b hb
            simp only [List.mem_singleton] at hb; subst hb
            rintro rfl
            exact (lookup_none_iff _ _).mp hlk ha
        | some prev =>
          simp only
          have hprev := (ihv k prev).mp hlk
          by_cases heq : prev = pk
          · -- the same packet again: nothing changes
            subst heq
            simp only [if_true]
            refine ⟨?_, ?_, ihn⟩
            · intro i
              rw [ihb i]
              constructor
              · rintro ⟨p, q, a, b, c⟩; exact ⟨p, q, (hmem _ _).mpr (Or.inl a), (hmem _ _).mpr (Or.inl b), c⟩
              · rintro ⟨p, q, a, b, c⟩
                have fix : ∀ r, (true, i, r) ∈ l ++ [(true, k, prev)] → (true, i, r) ∈ l := by
                  intro r hr
                  rcases (hmem _ _).mp hr with hr | ⟨rfl, rfl⟩
                  · exact hr
                  · exact hprev.1
                exact ⟨p, q, fix p a, fix q b, c⟩
            · intro i p
              rw [ihv i p]
              have fix : ∀ r, (true, i, r) ∈ l ++ [(true, k, prev)] ↔ (true, i, r) ∈ l := by
                intro r
                constructor
                · intro hr
                  rcases (hmem _ _).mp hr with hr | ⟨rfl, rfl⟩
                  · exact hr
                  · exact hprev.1
                · intro hr; exact (hmem _ _).mpr (Or.inl hr)
              simp only [fix]
          · -- a different packet: k becomes bad and is removed
            simp only [heq, if_false]
            refine ⟨?_, ?_, keys_filter_nodup _ _ ihn⟩
            · intro i
              simp only [List.contains_append, Bool.or_eq_true]
              rw [ihb i]
              constructor
              · rintro (⟨p, q, a, b, c⟩ | h)
                · exact ⟨p, q, (hmem _ _).mpr (Or.inl a), (hmem _ _).mpr (Or.inl b), c⟩
                · have : i = k := by simpa using h
                  subst this
                  exact ⟨prev, pk, (hmem _ _).mpr (Or.inl hprev.1), (hmem _ _).mpr (Or.inr ⟨rfl, rfl⟩), heq⟩
              · rintro ⟨p, q, a, b, c⟩
                by_cases hik : i = k
                · right; simp [hik]
                · left
                  rcases (hmem _ _).mp a with a | ⟨a, _⟩
                  · rcases (hmem _ _).mp b with b | ⟨b, _⟩
                    · exact ⟨p, q, a, b, c⟩
                    · exact absurd b hik
                  · exact absurd a hik
            · intro i p
              rw [lookup_filter_ne]
              by_cases hik : i = k
              · subst hik
                simp only [if_true]
                constructor
                · intro h; cases h
                · rintro ⟨_, b⟩
                  have e1 := b prev ((hmem _ _).mpr (Or.inl hprev.1))
                  have e2 := b pk ((hmem _ _).mpr (Or.inr ⟨rfl, rfl⟩))
                  exact absurd (e1.trans e2.symm) heq
              · simp only [hik, if_false]
                rw [ihv i p]
                constructor
                · rintro ⟨a, b⟩
                  refine ⟨(hmem _ _).mpr (Or.inl a), fun q hq => ?_⟩
                  rcases (hmem _ _).mp hq with hq | ⟨hq, _⟩
                  · exact b q hq
                  · exact absurd hq hik
                · rintro ⟨a, b⟩
                  rcases (hmem _ _).mp a with a | ⟨a, _⟩
                  · exact ⟨a, fun q hq => b q ((hmem _ _).mpr (Or.inl hq))⟩
                  · exact absurd a hik

end Kyber.Dkg
