import KyberModel.Core.Bytes
import Mathlib.Tactic.Ring
import Mathlib.Tactic.Linarith
/-
Library B: byte strings as numbers.
-/
namespace Kyber

theorem decodeBE_append_singleton (bs : Bytes) (b : UInt8) :
    decodeBE (bs ++ [b]) = decodeBE bs * 256 + b.toNat := by
  simp [decodeBE, List.foldl_append]

theorem decodeLE_eq_decodeBE_reverse (bs : Bytes) : decodeLE bs = decodeBE bs.reverse := by
  induction bs with
  | nil => rfl
  | cons b bs ih =>
    simp only [List.reverse_cons, decodeBE_append_singleton, decodeLE, ih]
    ring

theorem decodeBE_eq_decodeLE_reverse (bs : Bytes) : decodeBE bs = decodeLE bs.reverse := by
  rw [decodeLE_eq_decodeBE_reverse, List.reverse_reverse]

theorem decodeLE_lt (bs : Bytes) : decodeLE bs < 256 ^ bs.length := by
  induction bs with
  | nil => simp [decodeLE]
  | cons b bs ih =>
    simp only [decodeLE, List.length_cons, pow_succ]
    have : b.toNat < 256 := UInt8.toNat_lt b
    omega

theorem decodeBE_lt (bs : Bytes) : decodeBE bs < 256 ^ bs.length := by
  rw [decodeBE_eq_decodeLE_reverse]; simpa using decodeLE_lt bs.reverse

@[simp] theorem encodeLE_length (w n : Nat) : (encodeLE w n).length = w := by
  induction w generalizing n with
  | zero => rfl
  | succ w ih => simp [encodeLE, ih]

@[simp] theorem encodeBE_length (w n : Nat) : (encodeBE w n).length = w := by
  simp [encodeBE]

theorem decodeLE_encodeLE (w n : Nat) : decodeLE (encodeLE w n) = n % 256 ^ w := by
  induction w generalizing n with
  | zero => simp [encodeLE, decodeLE, Nat.mod_one]
  | succ w ih =>
    simp only [encodeLE, decodeLE, ih]
    have h : (UInt8.ofNat (n % 256)).toNat = n % 256 := by
      simp [UInt8.toNat_ofNat']
    rw [h, pow_succ, Nat.mul_comm (256 ^ w) 256, Nat.mod_mul]

theorem decodeLE_encodeLE_of_lt (w n : Nat) (h : n < 256 ^ w) : decodeLE (encodeLE w n) = n := by
  rw [decodeLE_encodeLE, Nat.mod_eq_of_lt h]

theorem decodeBE_encodeBE_of_lt (w n : Nat) (h : n < 256 ^ w) : decodeBE (encodeBE w n) = n := by
  rw [decodeBE_eq_decodeLE_reverse, encodeBE, List.reverse_reverse, decodeLE_encodeLE_of_lt w n h]

/-- Fixed-width little-endian encoding is injective on values that fit. -/
theorem encodeLE_injective (w a b : Nat) (ha : a < 256 ^ w) (hb : b < 256 ^ w)
    (h : encodeLE w a = encodeLE w b) : a = b := by
  have := congrArg decodeLE h
  rwa [decodeLE_encodeLE_of_lt w a ha, decodeLE_encodeLE_of_lt w b hb] at this

theorem encodeBE_injective (w a b : Nat) (ha : a < 256 ^ w) (hb : b < 256 ^ w)
    (h : encodeBE w a = encodeBE w b) : a = b := by
  have := congrArg decodeBE h
  rwa [decodeBE_encodeBE_of_lt w a ha, decodeBE_encodeBE_of_lt w b hb] at this

/-- `encodeLE` is the inverse of `decodeLE` on strings of the right length. -/
theorem encodeLE_decodeLE (bs : Bytes) : encodeLE bs.length (decodeLE bs) = bs := by
  induction bs with
  | nil => rfl
  | cons b bs ih =>
    simp only [List.length_cons, encodeLE, decodeLE]
    have hb : b.toNat < 256 := UInt8.toNat_lt b
    have h1 : (b.toNat + 256 * decodeLE bs) % 256 = b.toNat := by omega
    have h2 : (b.toNat + 256 * decodeLE bs) / 256 = decodeLE bs := by omega
    rw [h1, h2, ih]
    simp

theorem encodeBE_decodeBE (bs : Bytes) : encodeBE bs.length (decodeBE bs) = bs := by
  rw [decodeBE_eq_decodeLE_reverse, encodeBE]
  have := encodeLE_decodeLE bs.reverse
  rw [List.length_reverse] at this
  rw [this, List.reverse_reverse]

end Kyber
