import KyberModel.Proto.RabinDkg
import KyberModel.Lib.VssLemmas
import KyberModel.Lib.VssRun
/-
Lemmas about the Rabin DKG model (Proto/RabinDkg.lean): how the verifier map evolves under one call.
Everything is phrased through `List.lookup` (the Go map read) plus key-uniqueness.
-/
namespace Kyber.RabinDkg
open Kyber.Vss

abbrev VMap := List (Nat × Vss.Node)

theorem lookup_append_new (vs : VMap) (idx : Nat) (v : Vss.Node) (j : Nat) :
    (vs ++ [(idx, v)]).lookup j = match vs.lookup j with
      | some x => some x
      | none => if j = idx then some v else none := by
  induction vs with
  | nil =>
    by_cases h : j = idx
    · subst h; simp [List.lookup]
    · have : (j == idx) = false := by simpa using h
      simp [List.lookup, this, h]
  | cons p vs ih =>
    obtain ⟨k, x⟩ := p
    by_cases hk : j = k
    · subst hk; simp [List.lookup]
    · have : (j == k) = false := by simpa using hk
      simp only [List.cons_append, List.lookup, this]
      exact ih

theorem lookup_setV (vs : VMap) (idx : Nat) (v : Vss.Node) (j : Nat) :
    (setV vs idx v).lookup j = if j = idx then (vs.lookup j).map (fun _ => v) else vs.lookup j := by
  induction vs with
  | nil => simp [setV, List.lookup]
  | cons p vs ih =>
    obtain ⟨k, x⟩ := p
    unfold setV at ih ⊢
    by_cases hk : j = k
    · subst hk
      by_cases hi : j = idx
      · subst hi; simp [List.lookup]
      · have : (j == idx) = false := by simpa using hi
        simp [List.lookup, this, hi]
    · have hjk : (j == k) = false := by simpa using hk
      by_cases hki : k = idx
      · subst hki
        simp only [List.map_cons, beq_self_eq_true, if_true, List.lookup, hjk]
        simpa using ih
      · have : (k == idx) = false := by simpa using hki
        simp only [List.map_cons, this, Bool.false_eq_true, if_false, List.lookup, hjk]
        simpa using ih

theorem keys_setV (vs : VMap) (idx : Nat) (v : Vss.Node) : (setV vs idx v).map Prod.fst = vs.map Prod.fst := by
  unfold setV
  rw [List.map_map]
  apply List.map_congr_left
  intro p _
  by_cases h : p.1 = idx <;> simp [h]

theorem lookup_map_snd (vs : VMap) (f : Vss.Node → Vss.Node) (j : Nat) :
    (vs.map (fun p => (p.1, f p.2))).lookup j = (vs.lookup j).map f := by
  induction vs with
  | nil => simp [List.lookup]
  | cons p vs ih =>
    obtain ⟨k, x⟩ := p
    by_cases hk : j = k
    · subst hk; simp [List.lookup]
    · have : (j == k) = false := by simpa using hk
      simp only [List.map_cons, List.lookup, this]
      exact ih

theorem keys_map_snd (vs : VMap) (f : Vss.Node → Vss.Node) :
    (vs.map (fun p => (p.1, f p.2))).map Prod.fst = vs.map Prod.fst := by
  rw [List.map_map]; rfl

theorem lookup_none_iff_not_mem_keys (vs : VMap) (j : Nat) : vs.lookup j = none ↔ j ∉ vs.map Prod.fst := by
  induction vs with
  | nil => simp [List.lookup]
  | cons p vs ih =>
    obtain ⟨k, x⟩ := p
    by_cases hk : j = k
    · subst hk; simp [List.lookup]
    · have : (j == k) = false := by simpa using hk
      simp only [List.lookup, this, List.map_cons, List.mem_cons, hk, false_or]
      exact ih

theorem mem_of_lookup (vs : VMap) (j : Nat) (v : Vss.Node) (h : vs.lookup j = some v) : (j, v) ∈ vs := by
  induction vs with
  | nil => simp [List.lookup] at h
  | cons p vs ih =>
    obtain ⟨k, x⟩ := p
    by_cases hk : j = k
    · subst hk
      simp [List.lookup] at h
      subst h; exact List.mem_cons_self
    · have : (j == k) = false := by simpa using hk
      simp only [List.lookup, this] at h
      exact List.mem_cons_of_mem _ (ih h)

theorem lookup_of_mem (vs : VMap) (hnd : (vs.map Prod.fst).Nodup) (j : Nat) (v : Vss.Node) (h : (j, v) ∈ vs) :
    vs.lookup j = some v := by
  induction vs with
  | nil => cases h
  | cons p vs ih =>
    obtain ⟨k, x⟩ := p
    simp only [List.map_cons, List.nodup_cons] at hnd
    rcases List.mem_cons.mp h with h1 | h2
    · cases h1; simp [List.lookup]
    · have hk : j ≠ k := by
        intro hjk
        exact hnd.1 (List.mem_map.mpr ⟨(j, v), h2, hjk⟩)
      have : (j == k) = false := by simpa using hk
      simp only [List.lookup, this]
      exact ih hnd.2 h2

/-! ### one call -/

/-- `Vss.step` as a one-op run. -/
theorem vstep_eq_run (cfg : Cfg) (v : Vss.Node) (op : Vss.Op) : (Vss.step cfg v op).1 = Vss.run cfg v [op] := rfl

theorem processDeal_me (cfg : Cfg) (nd : Node) (idx : Nat) (s o : Bool) (d : Deal) :
    (processDeal cfg nd idx s o d).1.me = nd.me ∧ (processDeal cfg nd idx s o d).1.t = nd.t := by
  unfold processDeal
  split
  · exact ⟨rfl, rfl⟩
  · split
    · exact ⟨rfl, rfl⟩
    · split <;> exact ⟨rfl, rfl⟩

theorem step_me (cfg : Cfg) (nd : Node) (op : Op) : (step cfg nd op).1.me = nd.me ∧ (step cfg nd op).1.t = nd.t := by
  cases op with
  | deal idx s o d => exact processDeal_me cfg nd idx s o d
  | ownDeal d =>
    simp only [step, ownDeal]
    split
    · exact ⟨rfl, rfl⟩
    · have := processDeal_me cfg nd nd.me true true d
      split
      · rename_i nd' heq; rw [heq] at this; exact this
      · rename_i nd' o _ heq; rw [heq] at this; exact this
  | response idx sid vidx a s own =>
    simp only [step, processResponse]
    split
    · exact ⟨rfl, rfl⟩
    · split
      · split
        · exact ⟨rfl, rfl⟩
        · split
          · exact ⟨rfl, rfl⟩
          · split
            · exact ⟨rfl, rfl⟩
            · split <;> exact ⟨rfl, rfl⟩
          · exact ⟨rfl, rfl⟩
      · exact ⟨rfl, rfl⟩
  | justification idx wf s vidx d =>
    simp only [step, processJustification]
    split
    · exact ⟨rfl, rfl⟩
    · split
      · exact ⟨rfl, rfl⟩
      · split
        · exact ⟨rfl, rfl⟩
        · split <;> exact ⟨rfl, rfl⟩
  | setTimeout => exact ⟨rfl, rfl⟩
  | secretCommits cs =>
    simp only [step, secretCommits]; split <;> exact ⟨rfl, rfl⟩
  | procSecretCommits idx sid s cs =>
    simp only [step, processSecretCommits]
    repeat' split
    all_goals exact ⟨rfl, rfl⟩
  | procComplaintCommits issuer didx s d =>
    simp only [step, processComplaintCommits]
    repeat' split
    all_goals exact ⟨rfl, rfl⟩
  | procReconstruct sid index didx hs si sv s =>
    simp only [step, processReconstruct]
    repeat' split
    all_goals exact ⟨rfl, rfl⟩

/-- What one call does to the verifier map, entry by entry: an existing verifier continues its VSS history
    (zero, one or two VSS operations); a new entry appears only through `ProcessDeal` of an index in range that
    had none, and is this node's fresh verifier after its first two VSS operations. -/
structure StepRel (cfg : Cfg) (nd nd' : Node) : Prop where
  old : ∀ j v, nd.verifiers.lookup j = some v → ∃ vops, nd'.verifiers.lookup j = some (Vss.run cfg v vops)
  new : ∀ j v', nd.verifiers.lookup j = none → nd'.verifiers.lookup j = some v' →
    j < cfg.n ∧ ∃ vops, v' = Vss.run cfg (newVerifier cfg nd.me) vops
  keys : (nd.verifiers.map Prod.fst).Nodup → (nd'.verifiers.map Prod.fst).Nodup

theorem StepRel.refl (cfg : Cfg) (nd : Node) : StepRel cfg nd nd :=
  ⟨fun _ v h => ⟨[], h⟩, fun _ _ h h' => (by rw [h] at h'; cases h'), id⟩

/-- Changing only the dealer (or nothing) in the record. -/
theorem StepRel.of_verifiers_eq (cfg : Cfg) (nd nd' : Node) (h : nd'.verifiers = nd.verifiers) : StepRel cfg nd nd' :=
  ⟨fun _ v hv => ⟨[], by rw [h]; exact hv⟩, fun _ _ hn hs => (by rw [h, hn] at hs; cases hs), fun hk => by rw [h]; exact hk⟩

theorem stepRel_setV (cfg : Cfg) (nd nd' : Node) (idx : Nat) (v : Vss.Node) (vops : List Vss.Op)
    (hl : nd.verifiers.lookup idx = some v) (h : nd'.verifiers = setV nd.verifiers idx (Vss.run cfg v vops)) :
    StepRel cfg nd nd' := by
  refine ⟨?_, ?_, ?_⟩
  · intro j w hw
    rw [h, lookup_setV]
    by_cases hj : j = idx
    · subst hj
      rw [hl] at hw; cases hw
      exact ⟨vops, by simp [hl]⟩
    · exact ⟨[], by simp [hj, hw]; rfl⟩
  · intro j w hn hs
    rw [h, lookup_setV] at hs
    by_cases hj : j = idx
    · subst hj; rw [hl] at hn; cases hn
    · simp [hj, hn] at hs
  · intro hk; rw [h, keys_setV]; exact hk

theorem stepRel_append (cfg : Cfg) (nd nd' : Node) (idx : Nat) (vops : List Vss.Op) (hidx : idx < cfg.n)
    (hl : nd.verifiers.lookup idx = none)
    (h : nd'.verifiers = nd.verifiers ++ [(idx, Vss.run cfg (newVerifier cfg nd.me) vops)]) : StepRel cfg nd nd' := by
  refine ⟨?_, ?_, ?_⟩
  · intro j w hw
    exact ⟨[], by rw [h, lookup_append_new, hw]; rfl⟩
  · intro j w hn hs
    rw [h, lookup_append_new, hn] at hs
    by_cases hj : j = idx
    · subst hj
      simp at hs
      exact ⟨hidx, vops, hs.symm⟩
    · simp [hj] at hs
  · intro hk
    rw [h, List.map_append, List.nodup_append]
    refine ⟨hk, by simp, ?_⟩
    intro a ha b hb
    simp at hb; subst hb
    rintro rfl
    exact (lookup_none_iff_not_mem_keys _ _).mp hl ha

theorem processDeal_rel (cfg : Cfg) (nd : Node) (idx : Nat) (s o : Bool) (d : Deal) :
    StepRel cfg nd (processDeal cfg nd idx s o d).1 := by
  unfold processDeal
  split
  · exact StepRel.refl _ _
  · rename_i hidx
    have hidx' : idx < cfg.n := by simpa using hidx
    split
    · exact StepRel.refl _ _
    · rename_i hl
      have hl' : nd.verifiers.lookup idx = none := by
        cases h : nd.verifiers.lookup idx with
        | none => rfl
        | some _ => rw [h] at hl; simp at hl
      split
      · rename_i v heq
        refine stepRel_append cfg nd _ idx [.encDeal s o d, .unsafeSet idx true] hidx' hl' ?_
        have : v = (Vss.step cfg (newVerifier cfg nd.me) (.encDeal s o d)).1 := by rw [heq]
        simp only [Vss.run, List.foldl]
        rw [this]
      · rename_i v heq
        refine stepRel_append cfg nd _ idx [.encDeal s o d, .unsafeSet idx true] hidx' hl' ?_
        have : v = (Vss.step cfg (newVerifier cfg nd.me) (.encDeal s o d)).1 := by rw [heq]
        simp only [Vss.run, List.foldl]
        rw [this]
      · exact StepRel.refl _ _

theorem step_rel (cfg : Cfg) (nd : Node) (op : Op) : StepRel cfg nd (step cfg nd op).1 := by
  cases op with
  | deal idx s o d => exact processDeal_rel cfg nd idx s o d
  | ownDeal d =>
    simp only [step, ownDeal]
    split
    · exact StepRel.refl _ _
    · have h := processDeal_rel cfg nd nd.me true true d
      split
      · rename_i nd' heq
        rw [heq] at h
        exact ⟨h.old, h.new, h.keys⟩
      · rename_i nd' o _ heq
        rw [heq] at h; exact h
  | response idx sid vidx a s own =>
    simp only [step, processResponse]
    split
    · exact StepRel.refl _ _
    · rename_i v hl
      split
      · rename_i v' heq
        have hv' : v' = Vss.run cfg v [.response sid vidx a s] := by
          have : v' = (Vss.step cfg v (.response sid vidx a s)).1 := by rw [heq]
          rw [this]; rfl
        split
        · exact stepRel_setV cfg nd _ idx v [.response sid vidx a s] hl (by rw [hv'])
        · split
          · exact stepRel_setV cfg nd _ idx v [.response sid vidx a s] hl (by rw [hv'])
          · split
            · exact stepRel_setV cfg nd _ idx v [.response sid vidx a s] hl (by rw [hv'])
            · rename_i od
              have hrun : ∀ v'', v'' = (Vss.step cfg v' (.justification vidx true od)).1 →
                  v'' = Vss.run cfg v [.response sid vidx a s, .justification vidx true od] := by
                intro v'' h; rw [h, hv']; rfl
              split
              · rename_i v'' heq2
                exact stepRel_setV cfg nd _ idx v _ hl (by rw [hrun v'' (by rw [heq2])])
              · rename_i v'' o _ heq2
                exact stepRel_setV cfg nd _ idx v _ hl (by rw [hrun v'' (by rw [heq2])])
          · exact stepRel_setV cfg nd _ idx v [.response sid vidx a s] hl (by rw [hv'])
      · exact StepRel.refl _ _
  | justification idx wf s vidx d =>
    simp only [step, processJustification]
    split
    · exact StepRel.refl _ _
    · rename_i v hl
      split
      · exact StepRel.refl _ _
      · split
        · exact StepRel.refl _ _
        · split
          · rename_i v' heq
            exact stepRel_setV cfg nd _ idx v [.justification vidx s d] hl
              (by have : v' = (Vss.step cfg v (.justification vidx s d)).1 := by rw [heq]
                  rw [this]; rfl)
          · rename_i v' o _ heq
            exact stepRel_setV cfg nd _ idx v [.justification vidx s d] hl
              (by have : v' = (Vss.step cfg v (.justification vidx s d)).1 := by rw [heq]
                  rw [this]; rfl)
  | setTimeout =>
    have hv : (step cfg nd .setTimeout).1.verifiers =
        nd.verifiers.map (fun p => (p.1, (fun x => (Vss.step cfg x .setTimeout).1) p.2)) := rfl
    refine ⟨?_, ?_, ?_⟩
    · intro j v hl
      exact ⟨[.setTimeout], by rw [hv, lookup_map_snd nd.verifiers (fun x => (Vss.step cfg x .setTimeout).1) j, hl]; rfl⟩
    · intro j v' hn hs
      rw [hv, lookup_map_snd nd.verifiers (fun x => (Vss.step cfg x .setTimeout).1) j, hn] at hs; cases hs
    · intro hk; rw [hv, keys_map_snd nd.verifiers (fun x => (Vss.step cfg x .setTimeout).1)]; exact hk
  | secretCommits cs =>
    simp only [step, secretCommits]
    split
    · exact StepRel.refl _ _
    · exact StepRel.of_verifiers_eq cfg nd _ rfl
  | procSecretCommits idx sid s cs =>
    simp only [step, processSecretCommits]
    repeat' split
    all_goals first | exact StepRel.refl _ _ | exact StepRel.of_verifiers_eq cfg nd _ rfl
  | procComplaintCommits issuer didx s d =>
    simp only [step, processComplaintCommits]
    split
    · exact StepRel.refl _ _
    · split
      · exact StepRel.refl _ _
      · split
        · exact StepRel.refl _ _
        · split
          · exact StepRel.refl _ _
          · rename_i v hl
            have hrun : ∀ v', v' = (Vss.step cfg v (.verifyDeal d false)).1 → v' = Vss.run cfg v [.verifyDeal d false] :=
              fun v' h => by rw [h]; rfl
            split
            · rename_i v' heq
              have hv' := hrun v' (by rw [heq])
              repeat' split
              all_goals exact stepRel_setV cfg nd _ didx v [.verifyDeal d false] hl (by rw [hv'])
            · rename_i v' o _ heq
              exact stepRel_setV cfg nd _ didx v [.verifyDeal d false] hl (by rw [hrun v' (by rw [heq])])
  | procReconstruct sid index didx hs si sv s =>
    simp only [step, processReconstruct]
    repeat' split
    all_goals first | exact StepRel.refl _ _ | exact StepRel.of_verifiers_eq cfg nd _ rfl

end Kyber.RabinDkg
