import KyberModel.Lib.TwistModel
import KyberModel.Lib.TwistFacts
import KyberModel.Lib.TwistFactsBls
import KyberModel.Lib.Primes
/-
BN256 and BN254 G2: the executable twist models satisfy the side conditions of `Lib/TwistModel.lean`
(prime p ≡ 3 mod 4, b ≠ 0), their generators are valid points killed by the (prime) group order.
-/
namespace Kyber.TwistCurves
open Kyber Kyber.TwistModel Kyber.TwistFacts

instance bn256_prime : Fact (Nat.Prime BN256.twist.p) := ⟨BN256.p_prime⟩
instance bn254_prime : Fact (Nat.Prime BN254.twist.p) := ⟨BN254.p_prime⟩
instance blsg2_prime : Fact (Nat.Prime BLS12381.twist.p) := ⟨BLS12381.p_prime⟩
instance blsg2_34 : Fact (BLS12381.twist.p % 4 = 3) := ⟨bls_p34⟩
instance bn256_34 : Fact (BN256.twist.p % 4 = 3) := ⟨bn256_p34⟩
instance bn254_34 : Fact (BN254.twist.p % 4 = 3) := ⟨bn254_p34⟩

theorem castEl_ne_zero {p : Nat} {b : Fp2.El} (h : ¬ (b.1 % p = 0 ∧ b.2 % p = 0)) : castEl p b ≠ 0 := by
  intro h0
  apply h
  have h1 := congrArg QF.re h0
  have h2 := congrArg QF.im h0
  simp only [castEl, QF.zero_re, QF.zero_im, ZMod.natCast_eq_zero_iff] at h1 h2
  exact ⟨Nat.mod_eq_zero_of_dvd h1, Nat.mod_eq_zero_of_dvd h2⟩

theorem bn256_good : Good BN256.twist := ⟨bn256_gt3, castEl_ne_zero bn256_b_ne⟩
theorem bn254_good : Good BN254.twist := ⟨bn254_gt3, castEl_ne_zero bn254_b_ne⟩

theorem blsg2_good : Good BLS12381.twist := ⟨bls_gt3, castEl_ne_zero bls_b_ne⟩

theorem valid_of_facts {c : Fp2.Curve} {P : Fp2.Pt} (hr : reducedPt c.p P = true) (ho : Fp2.onCurve c P = true) :
    Valid c P := by
  cases P with
  | none => trivial
  | some pp =>
    obtain ⟨x, y⟩ := pp
    simp only [reducedPt, Bool.and_eq_true, decide_eq_true_eq] at hr
    exact ⟨⟨hr.1.1.1, hr.1.1.2⟩, ⟨hr.1.2, hr.2⟩, ho⟩

theorem bn256_base_valid : Valid BN256.twist bn256BaseLit :=
  valid_of_facts (c := BN256.twist) (P := bn256BaseLit) (by rw [← bn256_base_eq]; exact bn256_base_reduced)
    (by rw [← bn256_base_eq]; exact bn256_base_on)
theorem bn254_base_valid : Valid BN254.twist bn254BaseLit :=
  valid_of_facts (c := BN254.twist) (P := bn254BaseLit) (by rw [← bn254_base_eq]; exact bn254_base_reduced)
    (by rw [← bn254_base_eq]; exact bn254_base_on)

theorem blsg2_base_valid : Valid BLS12381.twist BLS12381.g2Base :=
  valid_of_facts (c := BLS12381.twist) (P := BLS12381.g2Base) bls_base_reduced bls_base_on

theorem bn256_order_lit : Fp2.smul BN256.twist BN256.n bn256BaseLit = none := by
  rw [← bn256_base_eq]; exact bn256_order
theorem bn254_order_lit : Fp2.smul BN254.twist BN254.n bn254BaseLit = none := by
  rw [← bn254_base_eq]; exact bn254_order

end Kyber.TwistCurves
