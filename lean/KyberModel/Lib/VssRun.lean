import KyberModel.Proto.Vss
import KyberModel.Lib.VssLemmas
import KyberModel.Lib.VssAlgebra
import KyberModel.Props.C07
/-
Helper definitions and lemmas for Props/C10.lean: runs of op lists, well-formedness along runs,
the all-honest state invariant, the share slice handed to RecoverSecret.
-/
namespace Kyber.Vss
open Kyber.Scalar Kyber.Share Polynomial

/-- A participant as created by the constructors. -/
def Init (cfg : Cfg) (nd : Node) : Prop :=
  (∃ me, nd = newVerifier cfg me) ∨ (∃ t sid, nd = newDealer t sid)

theorem run_nil (cfg : Cfg) (nd : Node) : run cfg nd [] = nd := rfl
theorem run_cons (cfg : Cfg) (nd : Node) (op : Op) (ops : List Op) :
    run cfg nd (op :: ops) = run cfg (step cfg nd op).1 ops := rfl
theorem run_append (cfg : Cfg) (nd : Node) (ops more : List Op) :
    run cfg nd (ops ++ more) = run cfg (run cfg nd ops) more := by
  unfold run; rw [List.foldl_append]

/-- Well-formedness: if there is an aggregator, its response keys are distinct indices `< n`. -/
def WF (cfg : Cfg) (nd : Node) : Prop := ∀ a, nd.agg = some a → Inv cfg a

theorem wf_init {cfg : Cfg} {nd : Node} (h : Init cfg nd) : WF cfg nd := by
  intro a ha
  rcases h with ⟨me, rfl⟩ | ⟨t, sid, rfl⟩
  · unfold newVerifier at ha
    cases hv : cfg.variant <;> simp [hv] at ha
    subst ha; exact inv_empty _ _ rfl
  · simp [newDealer] at ha; subst ha; exact inv_empty _ _ rfl

theorem wf_step {cfg : Cfg} {nd : Node} (h : WF cfg nd) (op : Op) : WF cfg (step cfg nd op).1 := by
  intro a' ha'
  cases hagg : nd.agg with
  | none =>
    rcases step_none cfg nd op hagg with h1 | ⟨a'', h1, h2⟩
    · rw [h1] at ha'; cases ha'
    · rw [h1] at ha'; cases ha'; exact h2
  | some a =>
    obtain ⟨a'', h1, h2⟩ := step_some cfg nd op a hagg
    rw [h1] at ha'; cases ha'
    exact h2.inv (h a hagg)

theorem wf_run {cfg : Cfg} {nd : Node} (h : WF cfg nd) (ops : List Op) : WF cfg (run cfg nd ops) := by
  induction ops generalizing nd with
  | nil => exact h
  | cons op ops ih => rw [run_cons]; exact ih (wf_step h op)

/-- Along any history an existing aggregator is only ever extended. -/
theorem run_ext (cfg : Cfg) (nd : Node) (a : Agg) (h : nd.agg = some a) (ops : List Op) :
    ∃ a', (run cfg nd ops).agg = some a' ∧ Ext cfg a a' := by
  induction ops generalizing nd a with
  | nil => exact ⟨a, h, Ext.refl _ _⟩
  | cons op ops ih =>
    obtain ⟨a1, h1, e1⟩ := step_some cfg nd op a h
    obtain ⟨a2, h2, e2⟩ := ih (step cfg nd op).1 a1 h1
    exact ⟨a2, by rw [run_cons]; exact h2, e1.trans e2⟩


theorem runTrace_fst (cfg : Cfg) (nd : Node) (ops : List Op) : (runTrace cfg nd ops).1 = run cfg nd ops := by
  induction ops generalizing nd with
  | nil => rfl
  | cons op ops ih => simp only [runTrace, run_cons]; exact ih _

theorem run_role (cfg : Cfg) (nd : Node) (ops : List Op) : (run cfg nd ops).role = nd.role := by
  induction ops generalizing nd with
  | nil => rfl
  | cons op ops ih => rw [run_cons, ih, step_role]

/-- Origin of approved slots along a history starting anywhere. -/
theorem approved_origin_from (cfg : Cfg) (nd : Node) (ops : List Op) (a' : Agg)
    (ha : (run cfg nd ops).agg = some a') (i : Nat) (hi : a'.responses.lookup i = some true) :
    (∃ a, nd.agg = some a ∧ a.responses.lookup i = some true) ∨
      ∃ e ∈ (runTrace cfg nd ops).2, AddsApproval nd.role i e.1 e.2 ∨ Justifies i e.1 e.2 := by
  induction ops generalizing nd with
  | nil => exact Or.inl ⟨a', ha, hi⟩
  | cons op ops ih =>
    rw [run_cons] at ha
    have hmem : ∀ e, e ∈ (runTrace cfg (step cfg nd op).1 ops).2 → e ∈ (runTrace cfg nd (op :: ops)).2 := by
      intro e he; simp only [runTrace]; exact List.mem_cons_of_mem _ he
    have hhead : (op, (step cfg nd op).2) ∈ (runTrace cfg nd (op :: ops)).2 := by
      simp only [runTrace]; exact List.mem_cons_self
    rcases ih (step cfg nd op).1 ha with ⟨a1, h1, h2⟩ | ⟨e, he, h⟩
    · rcases step_slot_true cfg nd op a1 h1 i h2 with h3 | ⟨_, h3⟩ | ⟨_, _, _, h3⟩
      · exact Or.inl h3
      · exact Or.inr ⟨_, hhead, Or.inl h3⟩
      · exact Or.inr ⟨_, hhead, Or.inr h3⟩
    · rw [step_role] at h
      exact Or.inr ⟨e, hmem e he, h⟩


/-- State of a verifier in an all-honest run: nothing bad, no timeout, the announced `t` and `sid`,
    a deal, approvals only. -/
structure Good (cfg : Cfg) (t sid : Nat) (a : Agg) : Prop where
  bad : a.badDealer = false
  tmo : a.timeout = false
  t : a.t = t
  sid : a.sid = some sid
  deal : a.deal.isSome = true
  all : ∀ p ∈ a.responses, p.2 = true
  inv : Inv cfg a

theorem good_response (cfg : Cfg) (t sid me j : Nat) (a : Agg) (hg : Good cfg t sid a) :
    ∃ a', (step cfg ⟨.verifier me, some a⟩ (.response sid j true true)).1 = ⟨.verifier me, some a'⟩ ∧
      Good cfg t sid a' ∧ (∀ k, k ∈ a.responses.map Prod.fst → k ∈ a'.responses.map Prod.fst) ∧
      (j < cfg.n → j ∈ a'.responses.map Prod.fst) := by
  have hdeal : a.deal.isNone = false := by
    cases hd : a.deal with
    | none => have := hg.deal; rw [hd] at this; cases this
    | some _ => rfl
  have hsid : respSidOk cfg a sid = true := by
    unfold respSidOk; rw [hg.sid]; cases cfg.variant <;> simp
  simp only [step, hdeal, Bool.and_false, Bool.false_eq_true, if_false]
  unfold verifyResponse
  simp only [hsid, Bool.not_true, Bool.false_eq_true, if_false]
  by_cases hj : cfg.n ≤ j
  · simp only [hj, decide_true, if_true]
    exact ⟨a, rfl, hg, fun k hk => hk, fun h => by omega⟩
  · simp only [hj, decide_false, Bool.false_eq_true, if_false]
    unfold addResponse
    simp only [hj, decide_false, Bool.false_eq_true, if_false]
    cases hl : a.responses.lookup j with
    | some b =>
      simp only [Option.isSome_some, if_true]
      refine ⟨a, rfl, hg, fun k hk => hk, fun _ => ?_⟩
      exact (lookup_isSome_iff_mem_keys _ _).mp (by rw [hl]; rfl)
    | none =>
      simp only [Option.isSome_none, Bool.false_eq_true, if_false]
      refine ⟨_, rfl, ⟨hg.bad, hg.tmo, hg.t, hg.sid, hg.deal, ?_, inv_append true (by omega) hl hg.inv⟩, ?_, ?_⟩
      · intro p hp
        rcases List.mem_append.mp hp with hp | hp
        · exact hg.all p hp
        · simp only [List.mem_singleton] at hp; subst hp; rfl
      · intro k hk; simp only [List.map_append, List.mem_append]; exact Or.inl hk
      · intro _; simp

theorem good_responses (cfg : Cfg) (t sid me : Nat) (js : List Nat) (a : Agg) (hg : Good cfg t sid a) :
    ∃ a', run cfg ⟨.verifier me, some a⟩ (js.map (fun j => Op.response sid j true true)) = ⟨.verifier me, some a'⟩ ∧
      Good cfg t sid a' ∧ (∀ k, k ∈ a.responses.map Prod.fst → k ∈ a'.responses.map Prod.fst) ∧
      (∀ j ∈ js, j < cfg.n → j ∈ a'.responses.map Prod.fst) := by
  induction js generalizing a with
  | nil => exact ⟨a, rfl, hg, fun k hk => hk, fun j hj => by cases hj⟩
  | cons j js ih =>
    obtain ⟨a1, h1, g1, m1, n1⟩ := good_response cfg t sid me j a hg
    obtain ⟨a2, h2, g2, m2, n2⟩ := ih a1 g1
    refine ⟨a2, ?_, g2, fun k hk => m2 k (m1 k hk), ?_⟩
    · simp only [List.map_cons, run_cons, h1]; exact h2
    · intro j' hj' hlt
      rcases List.mem_cons.mp hj' with rfl | hj'
      · exact m2 _ (n1 hlt)
      · exact n2 j' hj' hlt

/-- A `Good` state in which every verifier has a slot is certified (`t` in range). -/
theorem good_full_certified (cfg : Cfg) (t sid : Nat) (a : Agg) (hg : Good cfg t sid a)
    (hT : validT t cfg.n = true) (hfull : ∀ i < cfg.n, i ∈ a.responses.map Prod.fst) :
    dealCertified cfg a = true := by
  have htrue : ∀ i < cfg.n, a.responses.lookup i = some true := by
    intro i hi
    have := (lookup_isSome_iff_mem_keys _ _).mpr (hfull i hi)
    cases hl : a.responses.lookup i with
    | none => rw [hl] at this; cases this
    | some b =>
      have := hg.all _ (mem_of_lookup_eq_some hl)
      simp only at this; rw [this]
  have hT' : 2 ≤ t ∧ t ≤ cfg.n := by simpa [validT] using hT
  have habs : countAbsent a cfg.n = 0 := by
    unfold countAbsent
    rw [List.length_eq_zero_iff, List.filter_eq_nil_iff]
    intro i hi
    rw [htrue i (List.mem_range.mp hi)]; simp
  have happ : countApproved a cfg.n = cfg.n := by
    unfold countApproved
    rw [List.filter_eq_self.mpr, List.length_range]
    intro i hi
    rw [htrue i (List.mem_range.mp hi)]; simp
  have hcomp : anyComplaint a cfg.n = false := by
    unfold anyComplaint
    rw [List.any_eq_false]
    intro i hi
    rw [htrue i (List.mem_range.mp hi)]; simp
  unfold dealCertified
  cases hv : cfg.variant with
  | pedersen =>
    simp only [hg.t, hT, Bool.not_true, Bool.and_false, Bool.false_eq_true, if_false, hg.bad, hg.tmo, happ, hcomp, habs]
    simp [hT'.2]
  | rabin =>
    have hen : enoughApprovals cfg a = true := by
      unfold enoughApprovals
      simp only [hg.t, hT, Bool.not_true, Bool.and_false, Bool.not_false, Bool.true_and, decide_eq_true_eq]
      have := countApproved_le_approvedEntries a cfg.n
      omega
    simp [hen, habs, hg.bad]


/-- What `vss.RecoverSecret(suite, deals, n, t)` hands to `share.RecoverSecret`: the `SecShare`s. -/
def secShares (deals : List Deal) : List (Option Share.Share) :=
  deals.map (fun d => some ⟨d.i, some d.v⟩)

theorem validIdx_secShares (deals : List Deal) :
    (validIdx (secShares deals)).toFinset = (deals.map (·.i)).toFinset := by
  ext k
  simp only [List.mem_toFinset, mem_validIdx, secShares, List.mem_map]
  constructor
  · rintro ⟨s, ⟨d, hd, hs⟩, rfl, _⟩
    simp only [Option.some.injEq] at hs; subst hs
    exact ⟨d, hd, rfl⟩
  · rintro ⟨d, hd, rfl⟩
    exact ⟨⟨d.i, some d.v⟩, ⟨d, hd, rfl⟩, rfl, by simp⟩


end Kyber.Vss
