import KyberModel.Lib.Sigma
/-
C14 helper lemmas, part 2: the model's prover and verifier on one And-scope (`Scope`: a single Rep or
an And of Reps), i.e. the unit over which blinding and response vectors are shared.
-/
namespace Kyber.Sigma
open Kyber Kyber.Scalar

/-- A representation statement `P = Σ sᵢ·Bᵢ`. -/
structure RepS where
  p : Nat
  ts : List Term

def RepS.toPred (r : RepS) : Pred := .rep r.p r.ts

def repsVars (rs : List RepS) : List Nat := rs.flatMap (fun r => termVars r.ts)

/-- `w·P` on a non-obligated branch, the identity on the obligated one. -/
def w0 (E : Params) (w : Option Nat) (p : Nat) : Nat :=
  match w with
  | some w => mul E.q w (E.pval p)
  | none => 0

theorem w0_lt (E : Params) (hq : 0 < E.q) (w : Option Nat) (p : Nat) : w0 E w p < E.q := by
  unfold w0; cases w with
  | none => exact hq
  | some w => exact Nat.mod_lt _ hq

/-- A committed Rep of a scope, relative to the scope's final blinding vector `vf`: its prover state
    is a snapshot below `vf` defined on its own variables, its commitment is `w·P + Σ vf(s)·B`. -/
def RepCommitted (E : Params) (w : Option Nat) (vf : Vec) (r : RepS) (d : PP × Nat) : Prop :=
  (∃ vj, d.1 = PP.rep w vj ∧ Vec.le vj vf ∧ ∀ t ∈ r.ts, (vj t.s).isSome) ∧ d.2 < E.q ∧
  (∀ v'', Vec.le vf v'' → sumTerms E.q E.pval v'' r.ts (w0 E w r.p) = .ok d.2)

theorem RepCommitted.mono {E : Params} {w : Option Nat} {vf vf' : Vec} {r : RepS} {d : PP × Nat}
    (h : RepCommitted E w vf r d) (hle : Vec.le vf vf') : RepCommitted E w vf' r d := by
  obtain ⟨⟨vj, h1, h2, h3⟩, h4, h5⟩ := h
  exact ⟨⟨vj, h1, Vec.le_trans h2 hle, h3⟩, h4, fun v'' h'' => h5 v'' (Vec.le_trans hle h'')⟩

theorem encPs_cons (cd : Codec) (x : Nat) (l : List Nat) : encPs cd (x :: l) = cd.encP x ++ encPs cd l := by
  simp [encPs]
theorem encSs_cons (cd : Codec) (x : Nat) (l : List Nat) : encSs cd (x :: l) = cd.encS x ++ encSs cd l := by
  simp [encSs]
theorem encPs_append (cd : Codec) (a b : List Nat) : encPs cd (a ++ b) = encPs cd a ++ encPs cd b := by
  simp [encPs]
theorem encSs_append (cd : Codec) (a b : List Nat) : encSs cd (a ++ b) = encSs cd a ++ encSs cd b := by
  simp [encSs]

/-! ### Prover, commit phase -/

theorem commit_rep (E : Params) (rnd : Nat → Nat) (p : Nat) (ts : List Term) (w : Option Nat)
    (pv : Option Vec) (ch : List Nat) (st : PCtx) :
    commit E rnd (.rep p ts) w pv ch st =
      .ok ((commitTerms E.q E.pval rnd ts (mkVec pv) st (w0 E w p)).2.1.put
          (E.cd.encP (commitTerms E.q E.pval rnd ts (mkVec pv) st (w0 E w p)).2.2),
        .rep w (commitTerms E.q E.pval rnd ts (mkVec pv) st (w0 E w p)).1,
        (commitTerms E.q E.pval rnd ts (mkVec pv) st (w0 E w p)).1) := by
  simp only [commit]
  rfl

theorem commitAnd_reps (E : Params) (rnd : Nat → Nat) (hq : 0 < E.q) (w : Option Nat) :
    ∀ (rs : List RepS) (v : Vec) (st : PCtx),
      ∃ vf st' ds, commitAnd E rnd (rs.map RepS.toPred) w v st = .ok (st', ds.map Prod.fst, vf) ∧
        st' = { st with k := st'.k, msg := st.msg ++ encPs E.cd (ds.map Prod.snd) } ∧
        Vec.le v vf ∧ (∀ s, (vf s).isSome ↔ ((v s).isSome ∨ s ∈ repsVars rs)) ∧
        (Vec.bounded E.q v → Vec.bounded E.q vf) ∧
        List.Forall₂ (RepCommitted E w vf) rs ds := by
  intro rs
  induction rs with
  | nil =>
    intro v st
    refine ⟨v, st, [], by simp [commitAnd], by simp [encPs], Vec.le_refl _, by simp [repsVars], fun h => h, List.Forall₂.nil⟩
  | cons r rs ih =>
    intro v st
    rcases hct : commitTerms E.q E.pval rnd r.ts v st (w0 E w r.p) with ⟨v1, st1, V⟩
    obtain ⟨c1, c2, c3, c4, c5, c6⟩ := commitTerms_spec E.q E.pval rnd hq _ _ _ _ _ _ _ hct
    obtain ⟨vf, st', ds, i1, i2, i3, i4, i5, i6⟩ := ih v1 (st1.put (E.cd.encP V))
    have hV : V < E.q := sumTerms_lt E.q E.pval hq v1 r.ts _ _ (w0_lt E hq w r.p) (c6 v1 (Vec.le_refl _))
    refine ⟨vf, st', (PP.rep w v1, V) :: ds, ?_, ?_, Vec.le_trans c2 i3, ?_, fun h => i5 (c5 h), ?_⟩
    · simp only [List.map_cons, commitAnd, RepS.toPred, commit_rep, mkVec, Option.getD_some]
      rw [hct]
      dsimp only
      rw [i1]
    · rw [i2, c1]
      simp [PCtx.put, encPs_cons, List.append_assoc]
    · intro s
      rw [i4 s]
      simp only [repsVars, List.flatMap_cons, List.mem_append]
      constructor
      · rintro (h | h)
        · rcases c4 s h with h' | h'
          · exact Or.inl h'
          · exact Or.inr (Or.inl h')
        · exact Or.inr (Or.inr h)
      · rintro (h | h | h)
        · left
          obtain ⟨x, hx⟩ := Option.isSome_iff_exists.mp h
          rw [c2 _ _ hx]; rfl
        · left
          obtain ⟨t, ht, rfl⟩ := List.mem_map.mp h
          exact c3 t ht
        · exact Or.inr h
    · refine List.Forall₂.cons ?_ i6
      exact ⟨⟨v1, rfl, i3, c3⟩, hV, fun v'' h'' => c6 v'' (Vec.le_trans i3 h'')⟩

/-! ### Prover, response phase -/

theorem respondAnd_reps (E : Params) (sval : Nat → Nat) (w : Option Nat) (vf : Vec) (c : Nat) :
    ∀ (rs : List RepS) (ds : List (PP × Nat)) (r : Vec) (st : PCtx),
      List.Forall₂ (RepCommitted E w vf) rs ds →
      Vec.agrees r (target E.q sval w vf c) →
      ∃ rf, respondAnd E sval (rs.map RepS.toPred) (ds.map Prod.fst) c r st = .ok (st, rf) ∧
        Vec.agrees rf (target E.q sval w vf c) ∧ Vec.le r rf ∧
        (∀ s, (rf s).isSome ↔ ((r s).isSome ∨ s ∈ repsVars rs)) := by
  intro rs
  induction rs with
  | nil =>
    intro ds r st h ha
    cases h
    exact ⟨r, by simp [respondAnd], ha, Vec.le_refl _, by simp [repsVars]⟩
  | cons rp rs ih =>
    intro ds r st h ha
    cases h with
    | cons hd htl =>
      rename_i d ds
      obtain ⟨⟨vj, hpp, hle, hdef⟩, _, _⟩ := hd
      have hv : ∀ t ∈ rp.ts, vj t.s = vf t.s ∧ (vf t.s).isSome := by
        intro t ht
        obtain ⟨x, hx⟩ := Option.isSome_iff_exists.mp (hdef t ht)
        have := hle _ _ hx
        exact ⟨by rw [hx, this], by rw [this]; rfl⟩
      obtain ⟨r1, e1, e2, e3, e4, e5⟩ := respondTerms_spec E.q sval w vj vf c rp.ts r ha hv
      obtain ⟨rf, f1, f2, f3, f4⟩ := ih ds r1 st htl e2
      refine ⟨rf, ?_, f2, Vec.le_trans e3 f3, ?_⟩
      · simp only [List.map_cons, respondAnd, RepS.toPred, hpp, respond, mkVec, Option.getD_some, e1, sendResponses]
        rw [f1]
      · intro s
        rw [f4 s]
        simp only [repsVars, List.flatMap_cons, List.mem_append]
        constructor
        · rintro (h | h)
          · rcases e5 s h with h' | h'
            · exact Or.inl h'
            · exact Or.inr (Or.inl h')
          · exact Or.inr (Or.inr h)
        · rintro (h | h | h)
          · left
            obtain ⟨x, hx⟩ := Option.isSome_iff_exists.mp h
            rw [e3 _ _ hx]; rfl
          · left
            obtain ⟨t, ht, rfl⟩ := List.mem_map.mp h
            exact e4 t ht
          · exact Or.inr h

/-! ### Verifier -/

def vpReps : List RepS → List Nat → Vec → List VP
  | r :: rs, V :: Vs, v => .rep V (placeTerms r.ts v) :: vpReps rs Vs (placeTerms r.ts v)
  | _, _, _ => []

def placeReps : List RepS → Vec → Vec
  | [], v => v
  | r :: rs, v => placeReps rs (placeTerms r.ts v)

theorem placeReps_spec : ∀ (rs : List RepS) (r : Vec),
    Vec.le r (placeReps rs r) ∧ (∀ s, ((placeReps rs r) s).isSome ↔ ((r s).isSome ∨ s ∈ repsVars rs)) := by
  intro rs
  induction rs with
  | nil => intro r; exact ⟨Vec.le_refl _, by simp [placeReps, repsVars]⟩
  | cons rp rs ih =>
    intro r
    obtain ⟨p1, p2⟩ := placeTerms_spec rp.ts r
    obtain ⟨h1, h2⟩ := ih (placeTerms rp.ts r)
    refine ⟨Vec.le_trans p1 h1, fun s => ?_⟩
    simp only [placeReps]
    rw [h2 s, p2 s]
    simp only [repsVars, List.flatMap_cons, List.mem_append]
    tauto

theorem getCommitsAnd_reps (E : Params) (hc : E.cd.Lawful E.q) :
    ∀ (rs : List RepS) (Vs : List Nat) (r : Vec) (st : VCtx) (tail : Bytes),
      Vs.length = rs.length → (∀ V ∈ Vs, V < E.q) → st.rest = encPs E.cd Vs ++ tail →
      getCommitsAnd E (rs.map RepS.toPred) r st =
        .ok ({ st with rest := tail, pend := st.pend ++ encPs E.cd Vs }, vpReps rs Vs r, placeReps rs r) := by
  intro rs
  induction rs with
  | nil =>
    intro Vs r st tail hl _ h
    cases Vs with
    | nil =>
      simp only [encPs, List.flatMap_nil, List.nil_append] at h
      simp [getCommitsAnd, vpReps, placeReps, encPs, ← h]
    | cons _ _ => simp at hl
  | cons rp rs ih =>
    intro Vs r st tail hl hb h
    cases Vs with
    | nil => simp at hl
    | cons V Vs =>
      have hV : V < E.q := hb V (List.mem_cons_self ..)
      rw [encPs_cons, List.append_assoc] at h
      simp only [List.map_cons, getCommitsAnd, RepS.toPred, getCommits, mkVec, Option.getD_some, placeTermsB_v]
      rw [VCtx.get_enc st (hc.encP_len V) (hc.decP_enc V hV) h]
      simp only
      have := ih Vs (placeTerms rp.ts r) { st with rest := encPs E.cd Vs ++ tail, pend := st.pend ++ E.cd.encP V } tail
        (by simpa using hl) (fun V' hV' => hb V' (List.mem_cons_of_mem _ hV')) rfl
      rw [this]
      simp [vpReps, placeReps, encPs_cons, List.append_assoc]

/-- The per-Rep verification equation `c·P + Σ r(s)·B = V`. -/
def RepChecks (E : Params) (c : Nat) (r : Vec) (rp : RepS) (V : Nat) : Prop :=
  sumTerms E.q E.pval r rp.ts (mul E.q c (E.pval rp.p)) = .ok V

theorem verifyAnd_reps (E : Params) (c : Nat) (r : Vec) :
    ∀ (rs : List RepS) (Vs : List Nat) (r0 : Vec) (st st' : VCtx), Vs.length = rs.length →
      (verifyAnd E (rs.map RepS.toPred) (vpReps rs Vs r0) c r st = .ok st' ↔
        st' = st ∧ List.Forall₂ (RepChecks E c r) rs Vs) := by
  intro rs
  induction rs with
  | nil =>
    intro Vs r0 st st' hl
    cases Vs with
    | nil => simp [verifyAnd, eq_comm]
    | cons _ _ => simp at hl
  | cons rp rs ih =>
    intro Vs r0 st st' hl
    cases Vs with
    | nil => simp at hl
    | cons V Vs =>
      simp only [List.map_cons, vpReps, verifyAnd, RepS.toPred, verify, getResponses]
      have hl' : Vs.length = rs.length := by simpa using hl
      have ih' := ih Vs (placeTerms rp.ts r0) st st' hl'
      cases hs : sumTerms E.q E.pval r rp.ts (mul E.q c (E.pval rp.p)) with
      | error e =>
        simp only
        constructor
        · intro h; cases h
        · rintro ⟨_, h⟩
          cases h with
          | cons h1 _ => unfold RepChecks at h1; rw [hs] at h1; cases h1
      | ok V' =>
        simp only
        by_cases hV : V' = V
        · simp only [hV, if_true]
          rw [ih']
          constructor
          · rintro ⟨h1, h2⟩
            exact ⟨h1, List.Forall₂.cons (by unfold RepChecks; rw [hs, hV]) h2⟩
          · rintro ⟨h1, h2⟩
            cases h2 with
            | cons _ h2 => exact ⟨h1, h2⟩
        · simp only [hV, if_false]
          constructor
          · intro h; cases h
          · rintro ⟨_, h⟩
            cases h with
            | cons h1 _ =>
              unfold RepChecks at h1; rw [hs] at h1
              simp only [Except.ok.injEq] at h1
              exact absurd h1 hV

/-! ### Scopes -/

/-- An And-scope: a single Rep, or an And of Reps. -/
inductive Scope where
  | one (r : RepS)
  | all (rs : List RepS)

def Scope.toPred : Scope → Pred
  | .one r => r.toPred
  | .all rs => .and (rs.map RepS.toPred)

def Scope.reps : Scope → List RepS
  | .one r => [r]
  | .all rs => rs

def Scope.vars (sc : Scope) : List Nat := repsVars sc.reps

/-- Verifier placeholders of a scope. -/
def Scope.ph (sc : Scope) : Vec := placeReps sc.reps Vec.empty

/-- Verifier state of a scope after `getCommits` read the commitments `Vs`. -/
def Scope.vp (sc : Scope) (Vs : List Nat) : VP :=
  match sc with
  | .one r => .rep (Vs.headD 0) (placeTerms r.ts Vec.empty)
  | .all rs => .and (placeReps rs Vec.empty) (vpReps rs Vs Vec.empty)

/-- Everything the prover holds about a scope after the commit phase. -/
structure ScopeData where
  w : Option Nat
  pp : PP
  Vs : List Nat
  vf : Vec

def ScopeCommitted (E : Params) (sc : Scope) (d : ScopeData) : Prop :=
  ∃ ds, List.Forall₂ (RepCommitted E d.w d.vf) sc.reps ds ∧ d.Vs = ds.map Prod.snd ∧
    (match sc with
      | .one _ => [d.pp] = ds.map Prod.fst
      | .all _ => d.pp = .and (ds.map Prod.fst)) ∧
    (∀ s, (d.vf s).isSome ↔ s ∈ sc.vars) ∧ Vec.bounded E.q d.vf

theorem ScopeCommitted.length {E : Params} {sc : Scope} {d : ScopeData} (h : ScopeCommitted E sc d) :
    d.Vs.length = sc.reps.length := by
  obtain ⟨ds, h1, h2, _⟩ := h
  rw [h2, List.length_map, ← h1.length_eq]

theorem ScopeCommitted.lt {E : Params} {sc : Scope} {d : ScopeData} (h : ScopeCommitted E sc d) :
    ∀ V ∈ d.Vs, V < E.q := by
  obtain ⟨ds, h1, h2, _⟩ := h
  intro V hV
  rw [h2] at hV
  obtain ⟨x, hx, rfl⟩ := List.mem_map.mp hV
  have : ∀ (rs : List RepS) (ds : List (PP × Nat)), List.Forall₂ (RepCommitted E d.w d.vf) rs ds →
      ∀ x ∈ ds, x.2 < E.q := by
    intro rs ds hf
    induction hf with
    | nil => intro x hx; cases hx
    | cons hd _ ih =>
      intro x hx
      rcases List.mem_cons.mp hx with rfl | hx
      · exact hd.2.1
      · exact ih x hx
  exact this _ _ h1 x hx

theorem commit_scope (E : Params) (rnd : Nat → Nat) (hq : 0 < E.q) (sc : Scope) (w : Option Nat)
    (ch : List Nat) (st : PCtx) :
    ∃ d st', d.w = w ∧ commit E rnd sc.toPred w none ch st = .ok (st', d.pp, d.vf) ∧
      st' = { st with k := st'.k, msg := st.msg ++ encPs E.cd d.Vs } ∧ ScopeCommitted E sc d := by
  have hb0 : Vec.bounded E.q Vec.empty := by intro s x h; simp [Vec.empty] at h
  cases sc with
  | one r =>
    obtain ⟨vf, st', ds, h1, h2, _, h4, h5, h6⟩ := commitAnd_reps E rnd hq w [r] Vec.empty st
    cases h6 with
    | cons hd htl =>
      cases htl
      rename_i d
      simp only [List.map_cons, List.map_nil, commitAnd] at h1
      cases hcm : commit E rnd r.toPred w (some Vec.empty) [] st with
      | error e => rw [hcm] at h1; cases h1
      | ok res =>
        obtain ⟨st1, pp1, v1⟩ := res
        rw [hcm] at h1
        simp only [Except.ok.injEq, Prod.mk.injEq, List.cons.injEq, and_true] at h1
        obtain ⟨rfl, rfl, rfl⟩ := h1
        have hcm' : commit E rnd r.toPred w none ch st = .ok (st1, d.1, v1) := by
          rw [← hcm]; simp [RepS.toPred, commit, mkVec, Vec.empty]
        refine ⟨⟨w, d.1, [d.2], v1⟩, st1, rfl, hcm', by simpa using h2, ?_⟩
        refine ⟨[d], List.Forall₂.cons hd List.Forall₂.nil, by simp, by simp, ?_, h5 hb0⟩
        intro s; rw [h4 s]; simp [Vec.empty, Scope.vars, Scope.reps]
  | all rs =>
    obtain ⟨vf, st', ds, h1, h2, _, h4, h5, h6⟩ := commitAnd_reps E rnd hq w rs Vec.empty st
    refine ⟨⟨w, .and (ds.map Prod.fst), ds.map Prod.snd, vf⟩, st', rfl, ?_, h2, ?_⟩
    · simp only [Scope.toPred, commit, mkVec, Option.getD_none, h1]
    · refine ⟨ds, h6, rfl, rfl, ?_, h5 hb0⟩
      intro s; rw [h4 s]; simp [Vec.empty, Scope.vars, Scope.reps]

/-- The honest response vector of a committed scope for (sub-)challenge `c`. -/
def ScopeData.resp (q : Nat) (sval : Nat → Nat) (d : ScopeData) (c : Nat) : Vec :=
  target q sval d.w d.vf c

theorem respond_scope (E : Params) (sval : Nat → Nat) (sc : Scope) (d : ScopeData) (c : Nat)
    (ch : List Nat) (st : PCtx) (h : ScopeCommitted E sc d) :
    ∃ rf, respond E sval sc.toPred d.pp c none ch st =
        .ok (st.put (encSs E.cd (E.sv.filterMap rf)), rf) ∧
      (∀ s, rf s = if s ∈ sc.vars then d.resp E.q sval c s else none) := by
  obtain ⟨ds, h1, _, h3, h4, _⟩ := h
  have ha0 : Vec.agrees Vec.empty (target E.q sval d.w d.vf c) := fun s => Or.inl rfl
  have fin : ∀ rf : Vec, Vec.agrees rf (target E.q sval d.w d.vf c) →
      (∀ s, (rf s).isSome ↔ ((Vec.empty s).isSome ∨ s ∈ repsVars sc.reps)) →
      ∀ s, rf s = if s ∈ sc.vars then d.resp E.q sval c s else none := by
    intro rf f2 f4 s
    by_cases hs : s ∈ sc.vars
    · simp only [hs, if_true, ScopeData.resp]
      rcases f2 s with h' | h'
      · have := (f4 s).mpr (Or.inr hs)
        rw [h'] at this; cases this
      · exact h'
    · simp only [hs, if_false]
      cases hrf : rf s with
      | none => rfl
      | some x =>
        have := (f4 s).mp (by rw [hrf]; rfl)
        simp only [Vec.empty, Option.isSome_none, Bool.false_eq_true, false_or] at this
        exact absurd this hs
  cases sc with
  | one r =>
    simp only at h3
    obtain ⟨rf, f1, f2, _, f4⟩ := respondAnd_reps E sval d.w d.vf c [r] ds Vec.empty st h1 ha0
    rw [← h3] at f1
    simp only [List.map_cons, List.map_nil, respondAnd] at f1
    cases hrs : respond E sval r.toPred d.pp c (some Vec.empty) [] st with
    | error e => rw [hrs] at f1; cases f1
    | ok res =>
      obtain ⟨st1, r1⟩ := res
      rw [hrs] at f1
      simp only [Except.ok.injEq, Prod.mk.injEq] at f1
      obtain ⟨rfl, rfl⟩ := f1
      refine ⟨r1, ?_, fin r1 f2 f4⟩
      -- the same call with `pr = nil` additionally sends the responses
      cases hpp : d.pp with
      | rep w' vj =>
        rw [hpp] at hrs
        simp only [RepS.toPred, respond, mkVec, Option.getD_some] at hrs
        simp only [Scope.toPred, RepS.toPred, respond, mkVec, Option.getD_none]
        have he : (Vec.empty : Vec) = (fun _ => none) := rfl
        rw [he] at hrs
        cases hrt : respondTerms E.q sval w' vj c r.ts (fun _ => none) with
        | error e => rw [hrt] at hrs; cases hrs
        | ok r' =>
          rw [hrt] at hrs
          simp only [sendResponses, Except.ok.injEq, Prod.mk.injEq] at hrs
          obtain ⟨_, rfl⟩ := hrs
          have he2 : (Vec.empty : Vec) = (fun _ => none) := rfl
          rw [he2, hrt]
          simp only [sendResponses_none]
      | and _ => rw [hpp] at hrs; simp [RepS.toPred, respond] at hrs
      | or _ _ _ => rw [hpp] at hrs; simp [RepS.toPred, respond] at hrs
  | all rs =>
    simp only at h3
    obtain ⟨rf, f1, f2, _, f4⟩ := respondAnd_reps E sval d.w d.vf c rs ds Vec.empty st h1 ha0
    refine ⟨rf, ?_, fin rf f2 f4⟩
    simp only [Scope.toPred, h3, respond, mkVec, Option.getD_none, f1, sendResponses_none]

theorem getCommits_scope (E : Params) (hc : E.cd.Lawful E.q) (sc : Scope) (Vs : List Nat) (st : VCtx)
    (tail : Bytes) (hl : Vs.length = sc.reps.length) (hb : ∀ V ∈ Vs, V < E.q)
    (h : st.rest = encPs E.cd Vs ++ tail) :
    getCommits E sc.toPred none st =
      .ok ({ st with rest := tail, pend := st.pend ++ encPs E.cd Vs }, sc.vp Vs, sc.ph) := by
  cases sc with
  | one r =>
    cases Vs with
    | nil => simp [Scope.reps] at hl
    | cons V Vs =>
      cases Vs with
      | cons _ _ => simp [Scope.reps] at hl
      | nil =>
        have hV : V < E.q := hb V (List.mem_cons_self ..)
        have h' : st.rest = E.cd.encP V ++ tail := by simpa [encPs] using h
        simp only [Scope.toPred, RepS.toPred, getCommits, mkVec, Option.getD_none]
        rw [VCtx.get_enc st (hc.encP_len V) (hc.decP_enc V hV) h']
        simp [Scope.vp, Scope.ph, Scope.reps, placeReps, encPs, placeTermsB_v]
  | all rs =>
    have := getCommitsAnd_reps E hc rs Vs Vec.empty st tail hl hb h
    simp only [Scope.toPred, getCommits, mkVec, Option.getD_none, this, Scope.vp, Scope.ph, Scope.reps]

/-- Verification of a scope: read the responses of its variables, then check every Rep. -/
theorem verify_scope (E : Params) (sc : Scope) (Vs : List Nat) (c : Nat) (st st' : VCtx)
    (hl : Vs.length = sc.reps.length) :
    verify E sc.toPred (sc.vp Vs) c none st = .ok st' ↔
      ∃ r, readResponses E E.sv sc.ph st = .ok (r, st') ∧ List.Forall₂ (RepChecks E c r) sc.reps Vs := by
  cases sc with
  | one rp =>
    cases Vs with
    | nil => simp [Scope.reps] at hl
    | cons V Vs =>
      cases Vs with
      | cons _ _ => simp [Scope.reps] at hl
      | nil =>
        simp only [Scope.toPred, RepS.toPred, Scope.vp, List.headD_cons, verify, getResponses, Scope.ph,
          Scope.reps, placeReps]
        cases hr : readResponses E E.sv (placeTerms rp.ts Vec.empty) st with
        | error e => simp
        | ok res =>
          obtain ⟨r, st1⟩ := res
          simp only [Except.ok.injEq, Prod.mk.injEq, exists_and_left, exists_eq_left']
          cases hs : sumTerms E.q E.pval r rp.ts (mul E.q c (E.pval rp.p)) with
          | error e =>
            simp only
            constructor
            · intro h; cases h
            · rintro ⟨r', ⟨rfl, _⟩, h⟩
              cases h with
              | cons h1 _ => unfold RepChecks at h1; rw [hs] at h1; cases h1
          | ok V' =>
            simp only
            by_cases hV : V' = V
            · simp only [hV, if_true, Except.ok.injEq]
              constructor
              · rintro rfl
                exact ⟨r, ⟨rfl, rfl⟩, List.Forall₂.cons (by unfold RepChecks; rw [hs, hV]) List.Forall₂.nil⟩
              · rintro ⟨r', ⟨_, h⟩, _⟩; exact h
            · simp only [hV, if_false]
              constructor
              · intro h; cases h
              · rintro ⟨r', ⟨rfl, _⟩, h⟩
                cases h with
                | cons h1 _ =>
                  unfold RepChecks at h1; rw [hs] at h1
                  simp only [Except.ok.injEq] at h1
                  exact absurd h1 hV
  | all rs =>
    simp only [Scope.toPred, Scope.vp, verify, getResponses, Scope.ph, Scope.reps]
    cases hr : readResponses E E.sv (placeReps rs Vec.empty) st with
    | error e => simp
    | ok res =>
      obtain ⟨r, st1⟩ := res
      simp only
      rw [verifyAnd_reps E c r rs Vs Vec.empty st1 st' hl]
      constructor
      · rintro ⟨rfl, h⟩; exact ⟨r, rfl, h⟩
      · rintro ⟨r', h1, h2⟩
        simp only [Except.ok.injEq, Prod.mk.injEq] at h1
        obtain ⟨rfl, rfl⟩ := h1
        exact ⟨rfl, h2⟩

end Kyber.Sigma
