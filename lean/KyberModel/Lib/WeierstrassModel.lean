import KyberModel.Groups.Weierstrass
import KyberModel.Lib.Weierstrass
import KyberModel.Lib.ModCast
/-
The executable short-Weierstrass model (`Groups/Weierstrass.lean`, naturals mod p) is Mathlib's elliptic
curve group over `ZMod p`, for any curve record with prime `p > 3` and non-zero discriminant.
-/
namespace Kyber.WModel
open Kyber Kyber.Weierstrass Kyber.WLaw WeierstrassCurve

variable (c : Curve)

/-- Side conditions on a curve record. -/
structure Good : Prop where
  gt3 : 3 < c.p
  disc : (4 * c.a ^ 3 + 27 * c.b ^ 2) % c.p ≠ 0

variable {c}

abbrev Fp (c : Curve) := ZMod c.p

/-- Reduced coordinates on the curve. -/
def Valid (c : Curve) : Pt → Prop
  | none => True
  | some (x, y) => x < c.p ∧ y < c.p ∧ onCurve c (some (x, y)) = true

def castPt (c : Curve) : Pt → Option (Fp c × Fp c)
  | none => none
  | some (x, y) => some ((x : Fp c), (y : Fp c))

theorem castPt_injective {P Q : Pt} (hP : Valid c P) (hQ : Valid c Q) (h : castPt c P = castPt c Q) : P = Q := by
  cases P with
  | none => cases Q with
    | none => rfl
    | some q => obtain ⟨x, y⟩ := q; simp [castPt] at h
  | some p =>
    obtain ⟨x1, y1⟩ := p
    cases Q with
    | none => simp [castPt] at h
    | some q =>
      obtain ⟨x2, y2⟩ := q
      simp only [castPt, Option.some.injEq, Prod.mk.injEq] at h
      have := eq_of_cast_eq hP.1 hQ.1 h.1
      have := eq_of_cast_eq hP.2.1 hQ.2.1 h.2
      simp_all

section
variable [hprime : Fact c.p.Prime] (hg : Good c)
include hg

omit hprime in
theorem p_pos : 0 < c.p := by have := hg.gt3; omega

/-- The model's addition is the field-level chord-and-tangent addition on residues. -/
theorem add_cast (P Q : Pt) (hP : Valid c P) (hQ : Valid c Q) :
    castPt c (add c P Q) = fadd (c.a : Fp c) (castPt c P) (castPt c Q) := by
  have hp := p_pos hg
  have h2 : 2 < c.p := by have := hg.gt3; omega
  cases P with
  | none => cases Q <;> simp [add, castPt, fadd]
  | some p =>
    obtain ⟨x1, y1⟩ := p
    cases Q with
    | none => simp [add, castPt, fadd]
    | some q =>
      obtain ⟨x2, y2⟩ := q
      have hx1 : x1 < c.p := hP.1
      have hx2 : x2 < c.p := hQ.1
      have hy1 : y1 < c.p := hP.2.1
      have hy2 : y2 < c.p := hQ.2.1
      simp only [add, castPt, fadd]
      rw [Nat.mod_eq_of_lt hx1, Nat.mod_eq_of_lt hx2]
      by_cases hx : x1 = x2
      · have hxc : (x1 : Fp c) = (x2 : Fp c) := by rw [hx]
        rw [if_pos hx, if_pos hxc]
        by_cases hy : (y1 + y2) % c.p = 0
        · have : ((y1 : Fp c) + (y2 : Fp c)) = 0 := by
            have := (ZMod.natCast_eq_zero_iff (y1 + y2) c.p).mpr (Nat.dvd_of_mod_eq_zero hy)
            exact_mod_cast this
          rw [if_pos hy, if_pos this]
        · have : ¬ ((y1 : Fp c) + (y2 : Fp c)) = 0 := by
            intro h0
            apply hy
            have h0' : ((y1 + y2 : Nat) : Fp c) = 0 := by exact_mod_cast h0
            exact Nat.mod_eq_zero_of_dvd ((ZMod.natCast_eq_zero_iff _ _).mp h0')
          rw [if_neg hy, if_neg this]
          simp only [Option.some.injEq, Prod.mk.injEq]
          simp only [cast_subMod hp, Nat.cast_mul, Nat.cast_add, ZMod.natCast_mod, cast_invMod h2, Nat.cast_ofNat]
          constructor <;> (rw [div_eq_mul_inv]; ring)
      · have hxc : ¬ (x1 : Fp c) = (x2 : Fp c) := fun h => hx (eq_of_cast_eq hx1 hx2 h)
        rw [if_neg hx, if_neg hxc]
        simp only [Option.some.injEq, Prod.mk.injEq]
        simp only [cast_subMod hp, Nat.cast_mul, Nat.cast_add, ZMod.natCast_mod, cast_invMod h2]
        constructor <;> (rw [div_eq_mul_inv]; ring)

omit hg in
/-- The boolean curve test agrees with Mathlib's curve equation over `ZMod p`. -/
theorem onCurve_iff (x y : Nat) :
    onCurve c (some (x, y)) = true ↔ (sw (c.a : Fp c) (c.b : Fp c)).Equation (x : Fp c) (y : Fp c) := by
  rw [Affine.equation_iff]
  simp only [onCurve, sw, decide_eq_true_iff]
  rw [← ZMod.natCast_eq_natCast_iff']
  simp only [Nat.cast_add, Nat.cast_mul, ZMod.natCast_mod]
  constructor <;> intro h <;> linear_combination h

/-- Δ ≠ 0 for the model curve. -/
theorem disc_ne_zero : (sw (c.a : Fp c) (c.b : Fp c)).Δ ≠ 0 := by
  have h2 : ((2 : Nat) : Fp c) ≠ 0 := by
    intro h
    have := Nat.le_of_dvd (by norm_num) ((ZMod.natCast_eq_zero_iff 2 c.p).mp h)
    have := hg.gt3; omega
  have hd : ((4 * c.a ^ 3 + 27 * c.b ^ 2 : Nat) : Fp c) ≠ 0 := by
    intro h
    exact hg.disc (Nat.mod_eq_zero_of_dvd ((ZMod.natCast_eq_zero_iff _ _).mp h))
  have hΔ : (sw (c.a : Fp c) (c.b : Fp c)).Δ = -(16 : Fp c) * ((4 * c.a ^ 3 + 27 * c.b ^ 2 : Nat) : Fp c) := by
    simp only [WeierstrassCurve.Δ, WeierstrassCurve.b₂, WeierstrassCurve.b₄, WeierstrassCurve.b₆,
      WeierstrassCurve.b₈, sw]
    push_cast; ring
  rw [hΔ]
  apply mul_ne_zero _ hd
  have h16 : (16 : Fp c) = ((2 : Nat) : Fp c) ^ 4 := by push_cast; norm_num
  rw [neg_ne_zero, h16]
  exact pow_ne_zero 4 h2

/-- Valid model points as Mathlib points. -/
noncomputable def toW : (P : Pt) → Valid c P → (sw (c.a : Fp c) (c.b : Fp c)).Point
  | none, _ => 0
  | some (x, y), h =>
    .some (x : Fp c) (y : Fp c)
      ((Affine.equation_iff_nonsingular_of_Δ_ne_zero (disc_ne_zero hg)).mp ((onCurve_iff x y).mp h.2.2))

theorem ofPoint_toW (P : Pt) (h : Valid c P) : ofPoint (toW hg P h) = castPt c P := by
  cases P with
  | none => rfl
  | some p => obtain ⟨x, y⟩ := p; rfl

theorem toW_injective {P Q : Pt} (hP : Valid c P) (hQ : Valid c Q) (h : toW hg P hP = toW hg Q hQ) : P = Q := by
  apply castPt_injective hP hQ
  rw [← ofPoint_toW hg P hP, ← ofPoint_toW hg Q hQ, h]

omit hprime in
/-- Coordinates produced by `add` are reduced. -/
theorem add_reduced (P Q : Pt) (hP : Valid c P) (hQ : Valid c Q) (x y : Nat)
    (h : add c P Q = some (x, y)) : x < c.p ∧ y < c.p := by
  have hp := p_pos hg
  cases P with
  | none =>
    cases Q with
    | none => simp [add] at h
    | some q =>
      obtain ⟨x2, y2⟩ := q
      simp only [add, Option.some.injEq, Prod.mk.injEq] at h
      obtain ⟨rfl, rfl⟩ := h
      exact ⟨hQ.1, hQ.2.1⟩
  | some p =>
    obtain ⟨x1, y1⟩ := p
    cases Q with
    | none =>
      simp only [add, Option.some.injEq, Prod.mk.injEq] at h
      obtain ⟨rfl, rfl⟩ := h
      exact ⟨hP.1, hP.2.1⟩
    | some q =>
      obtain ⟨x2, y2⟩ := q
      simp only [add] at h
      by_cases hx : x1 % c.p = x2 % c.p
      · rw [if_pos hx] at h
        by_cases hy : (y1 + y2) % c.p = 0
        · rw [if_pos hy] at h; simp at h
        · rw [if_neg hy] at h
          simp only [Option.some.injEq, Prod.mk.injEq] at h
          obtain ⟨rfl, rfl⟩ := h
          exact ⟨subMod_lt hp _ _, subMod_lt hp _ _⟩
      · rw [if_neg hx] at h
        simp only [Option.some.injEq, Prod.mk.injEq] at h
        obtain ⟨rfl, rfl⟩ := h
        exact ⟨subMod_lt hp _ _, subMod_lt hp _ _⟩

/-- `add` maps valid points to a valid point which is Mathlib's sum. -/
theorem add_spec (P Q : Pt) (hP : Valid c P) (hQ : Valid c Q) :
    ∃ h : Valid c (add c P Q), toW hg (add c P Q) h = toW hg P hP + toW hg Q hQ := by
  have hcast : castPt c (add c P Q) = ofPoint (toW hg P hP + toW hg Q hQ) := by
    rw [ofPoint_add, ofPoint_toW, ofPoint_toW, add_cast hg P Q hP hQ]
  have hred := add_reduced hg P Q hP hQ
  generalize hR : toW hg P hP + toW hg Q hQ = R at hcast
  generalize hS : add c P Q = S at hcast hred
  cases S with
  | none =>
    refine ⟨trivial, ?_⟩
    cases R with
    | zero => rfl
    | some X Y hns => simp [castPt, ofPoint] at hcast
  | some s =>
    obtain ⟨x, y⟩ := s
    cases R with
    | zero => simp [castPt, ofPoint] at hcast
    | some X Y hns =>
      simp only [castPt, ofPoint, Option.some.injEq, Prod.mk.injEq] at hcast
      obtain ⟨hX, hY⟩ := hcast
      have hv : Valid c (some (x, y)) := by
        refine ⟨(hred x y rfl).1, (hred x y rfl).2, ?_⟩
        rw [onCurve_iff, hX, hY]; exact hns.1
      refine ⟨hv, ?_⟩
      apply ofPoint_injective
      rw [ofPoint_toW]
      simp [castPt, ofPoint, hX, hY]

theorem valid_add {P Q : Pt} (hP : Valid c P) (hQ : Valid c Q) : Valid c (add c P Q) :=
  (add_spec hg P Q hP hQ).1

theorem toW_add {P Q : Pt} (hP : Valid c P) (hQ : Valid c Q) :
    toW hg (add c P Q) (valid_add hg hP hQ) = toW hg P hP + toW hg Q hQ :=
  (add_spec hg P Q hP hQ).2

omit hprime in
theorem valid_neg {P : Pt} (hP : Valid c P) : Valid c (neg c P) := by
  have hp := p_pos hg
  cases P with
  | none => trivial
  | some p =>
    obtain ⟨x, y⟩ := p
    obtain ⟨hx, hy, hon⟩ := hP
    refine ⟨Nat.mod_lt _ hp, negMod_lt hp _, ?_⟩
    simp only [onCurve, decide_eq_true_iff] at hon ⊢
    rw [Nat.mod_eq_of_lt hx]
    have hneg : negMod y c.p * negMod y c.p % c.p = y * y % c.p := by
      rw [← ZMod.natCast_eq_natCast_iff']
      push_cast
      rw [cast_negMod hp]; ring
    rw [hneg]; exact hon

theorem toW_neg {P : Pt} (hP : Valid c P) : toW hg (neg c P) (valid_neg hg hP) = -toW hg P hP := by
  apply ofPoint_injective
  rw [ofPoint_toW, ofPoint_neg, ofPoint_toW]
  cases P with
  | none => rfl
  | some p =>
    obtain ⟨x, y⟩ := p
    simp only [neg, castPt, fneg, Option.some.injEq, Prod.mk.injEq]
    exact ⟨by rw [ZMod.natCast_mod], cast_negMod (p_pos hg) y⟩

omit hprime hg in
theorem valid_zero : Valid c none := trivial

theorem toW_zero : toW hg none valid_zero = 0 := rfl

theorem toW_congr {P Q : Pt} (h : P = Q) (hP : Valid c P) (hQ : Valid c Q) : toW hg P hP = toW hg Q hQ := by
  subst h; rfl

/-- Double-and-add computes the scalar multiple in Mathlib's group. -/
theorem smulAux_spec {P : Pt} (hP : Valid c P) : ∀ (fuel k : Nat), k < 2 ^ fuel →
    ∃ h : Valid c (smulAux c fuel k P), toW hg _ h = k • toW hg P hP := by
  intro fuel
  induction fuel with
  | zero =>
    intro k hk
    have : k = 0 := by omega
    subst this
    exact ⟨valid_zero, by rw [zero_nsmul]; rfl⟩
  | succ n ih =>
    intro k hk
    unfold smulAux
    by_cases hk0 : k = 0
    · subst hk0
      simp only [if_true]
      exact ⟨valid_zero, by rw [zero_nsmul]; rfl⟩
    · simp only [hk0, if_false]
      have hk2 : k / 2 < 2 ^ n := by
        have : k < 2 * 2 ^ n := by rw [pow_succ] at hk; omega
        omega
      obtain ⟨hv, hs⟩ := ih (k / 2) hk2
      have hdbl := valid_add hg hv hv
      have hdblG : toW hg _ hdbl = (2 * (k / 2)) • toW hg P hP := by
        rw [toW_add hg hv hv, hs, two_mul, add_nsmul]
      by_cases hodd : k % 2 = 1
      · simp only [hodd, if_true]
        refine ⟨valid_add hg hdbl hP, ?_⟩
        have hk' : k = 2 * (k / 2) + 1 := by omega
        refine (toW_add hg hdbl hP).trans ?_
        rw [hdblG]
        conv_rhs => rw [hk', add_nsmul, one_nsmul]
      · simp only [hodd, if_false]
        refine ⟨hdbl, ?_⟩
        have hk' : k = 2 * (k / 2) := by omega
        refine hdblG.trans ?_
        conv_rhs => rw [hk']

theorem valid_smul {P : Pt} (hP : Valid c P) (k : Nat) : Valid c (smul c k P) :=
  (smulAux_spec hg hP (k.log2 + 1) k Nat.lt_log2_self).1

theorem toW_smul {P : Pt} (hP : Valid c P) (k : Nat) :
    toW hg (smul c k P) (valid_smul hg hP k) = k • toW hg P hP :=
  (smulAux_spec hg hP (k.log2 + 1) k Nat.lt_log2_self).2

/-! ### The group laws on the executable model, for every valid operand -/

theorem add_assoc' {P Q R : Pt} (hP : Valid c P) (hQ : Valid c Q) (hR : Valid c R) :
    add c (add c P Q) R = add c P (add c Q R) := by
  apply toW_injective hg (valid_add hg (valid_add hg hP hQ) hR) (valid_add hg hP (valid_add hg hQ hR))
  rw [toW_add hg (valid_add hg hP hQ) hR, toW_add hg hP hQ, toW_add hg hP (valid_add hg hQ hR), toW_add hg hQ hR]
  exact add_assoc _ _ _

theorem add_comm' {P Q : Pt} (hP : Valid c P) (hQ : Valid c Q) : add c P Q = add c Q P := by
  apply toW_injective hg (valid_add hg hP hQ) (valid_add hg hQ hP)
  rw [toW_add hg hP hQ, toW_add hg hQ hP]
  exact add_comm _ _

omit hprime hg in
theorem add_zero' (P : Pt) : add c P none = P := by cases P <;> rfl

omit hprime hg in
theorem zero_add' (P : Pt) : add c none P = P := by cases P <;> rfl

theorem add_neg' {P : Pt} (hP : Valid c P) : add c P (neg c P) = none := by
  apply toW_injective hg (valid_add hg hP (valid_neg hg hP)) valid_zero
  rw [toW_add hg hP (valid_neg hg hP), toW_neg hg hP, toW_zero]
  exact add_neg_cancel _

theorem smul_add' {P : Pt} (hP : Valid c P) (a b : Nat) :
    smul c (a + b) P = add c (smul c a P) (smul c b P) := by
  apply toW_injective hg (valid_smul hg hP _) (valid_add hg (valid_smul hg hP a) (valid_smul hg hP b))
  rw [toW_smul hg hP, toW_add hg (valid_smul hg hP a) (valid_smul hg hP b), toW_smul hg hP, toW_smul hg hP]
  exact add_nsmul _ _ _

theorem smul_smul' {P : Pt} (hP : Valid c P) (a b : Nat) :
    smul c a (smul c b P) = smul c (a * b) P := by
  apply toW_injective hg (valid_smul hg (valid_smul hg hP b) a) (valid_smul hg hP _)
  rw [toW_smul hg (valid_smul hg hP b), toW_smul hg hP, toW_smul hg hP]
  exact (mul_nsmul' _ _ _).symm

theorem smul_add_pt' {P Q : Pt} (hP : Valid c P) (hQ : Valid c Q) (a : Nat) :
    smul c a (add c P Q) = add c (smul c a P) (smul c a Q) := by
  apply toW_injective hg (valid_smul hg (valid_add hg hP hQ) a)
    (valid_add hg (valid_smul hg hP a) (valid_smul hg hQ a))
  rw [toW_smul hg (valid_add hg hP hQ), toW_add hg hP hQ,
    toW_add hg (valid_smul hg hP a) (valid_smul hg hQ a), toW_smul hg hP, toW_smul hg hQ]
  exact nsmul_add _ _ _

theorem zero_smul' {P : Pt} (hP : Valid c P) : smul c 0 P = none := by
  apply toW_injective hg (valid_smul hg hP 0) valid_zero
  rw [toW_smul hg hP, toW_zero]; exact zero_nsmul _

theorem one_smul' {P : Pt} (hP : Valid c P) : smul c 1 P = P := by
  apply toW_injective hg (valid_smul hg hP 1) hP
  rw [toW_smul hg hP]; exact one_nsmul _

/-- Scalars act modulo `q` on points killed by `q`. -/
theorem smul_mod' {P : Pt} (hP : Valid c P) (q : Nat) (hq : smul c q P = none) (a : Nat) :
    smul c (a % q) P = smul c a P := by
  apply toW_injective hg (valid_smul hg hP _) (valid_smul hg hP _)
  rw [toW_smul hg hP, toW_smul hg hP]
  have h0 : q • toW hg P hP = 0 := by
    rw [← toW_smul hg hP, ← toW_zero hg]
    exact toW_congr hg hq _ valid_zero
  conv_rhs => rw [← Nat.div_add_mod a q, add_nsmul, mul_comm, mul_nsmul', h0, nsmul_zero, zero_add]

/-- `(q - 1) P = -P` for points killed by `q`. -/
theorem pred_smul' {P : Pt} (hP : Valid c P) (q : Nat) (hq0 : 0 < q) (hq : smul c q P = none) :
    smul c (q - 1) P = neg c P := by
  apply toW_injective hg (valid_smul hg hP _) (valid_neg hg hP)
  rw [toW_smul hg hP, toW_neg hg hP]
  have h0 : q • toW hg P hP = 0 := by
    rw [← toW_smul hg hP, ← toW_zero hg]
    exact toW_congr hg hq _ valid_zero
  have : (q - 1) • toW hg P hP + toW hg P hP = 0 := by
    rw [← succ_nsmul]
    have : q - 1 + 1 = q := by omega
    rw [this, h0]
  exact eq_neg_of_add_eq_zero_left this

end

end Kyber.WModel
