import KyberModel.Lib.IRBasic
import KyberModel.Lib.EdwardsGroup
import KyberModel.Generated.Formulas
/-
IR theorems for `group/edwards25519/ge.go` (regenerated from the source on every run):
each translated formula computes the Edwards group operation on representatives, for ALL inputs.
Representation relations are multiplicative (no division), `a = -1`.
-/
namespace Kyber.IR.Ed
open Kyber.IR Kyber.IR.Gen Kyber.EdLaw

variable {F : Type} [Field F]

/-- extended coordinates (X:Y:Z:T) at base `b` represent the affine point (x, y) -/
structure ExtRep (s : Loc → F) (b : Nat) (x y : F) : Prop where
  hz : s ⟨b, F_Z⟩ ≠ 0
  hx : s ⟨b, F_X⟩ = x * s ⟨b, F_Z⟩
  hy : s ⟨b, F_Y⟩ = y * s ⟨b, F_Z⟩
  ht : s ⟨b, F_T⟩ = x * y * s ⟨b, F_Z⟩

/-- projective coordinates (X:Y:Z) -/
structure ProjRep (s : Loc → F) (b : Nat) (x y : F) : Prop where
  hz : s ⟨b, F_Z⟩ ≠ 0
  hx : s ⟨b, F_X⟩ = x * s ⟨b, F_Z⟩
  hy : s ⟨b, F_Y⟩ = y * s ⟨b, F_Z⟩

/-- completed coordinates ((X:Z),(Y:T)) -/
structure CompRep (s : Loc → F) (b : Nat) (x y : F) : Prop where
  hz : s ⟨b, F_Z⟩ ≠ 0
  ht : s ⟨b, F_T⟩ ≠ 0
  hx : s ⟨b, F_X⟩ = x * s ⟨b, F_Z⟩
  hy : s ⟨b, F_Y⟩ = y * s ⟨b, F_T⟩

/-- cached coordinates (Y+X, Y-X, Z, 2dT) -/
structure CachedRep (d : F) (s : Loc → F) (b : Nat) (x y : F) : Prop where
  hz : s ⟨b, F_Z⟩ ≠ 0
  yPlusX : s ⟨b, F_yPlusX⟩ = (y + x) * s ⟨b, F_Z⟩
  yMinusX : s ⟨b, F_yMinusX⟩ = (y - x) * s ⟨b, F_Z⟩
  t2d : s ⟨b, F_T2d⟩ = 2 * d * x * y * s ⟨b, F_Z⟩

/-- precomputed affine coordinates (y+x, y-x, 2dxy) -/
structure PreRep (d : F) (s : Loc → F) (b : Nat) (x y : F) : Prop where
  yPlusX : s ⟨b, F_yPlusX⟩ = y + x
  yMinusX : s ⟨b, F_yMinusX⟩ = y - x
  xy2d : s ⟨b, F_xy2d⟩ = 2 * d * x * y

abbrev R (p : List Instr) (s : Loc → F) : Loc → F := run (ringOps F) p s

/-! ### `completedGroupElement.Add` : extended + cached → completed -/

set_option maxRecDepth 8000 in
theorem completed_Add_vals (s : Loc → F) :
    R ge_completed_Add s ⟨B_c, F_X⟩
      = (s ⟨B_p, F_Y⟩ + s ⟨B_p, F_X⟩) * s ⟨B_q, F_yPlusX⟩ - (s ⟨B_p, F_Y⟩ - s ⟨B_p, F_X⟩) * s ⟨B_q, F_yMinusX⟩
    ∧ R ge_completed_Add s ⟨B_c, F_Y⟩
      = (s ⟨B_p, F_Y⟩ + s ⟨B_p, F_X⟩) * s ⟨B_q, F_yPlusX⟩ + (s ⟨B_p, F_Y⟩ - s ⟨B_p, F_X⟩) * s ⟨B_q, F_yMinusX⟩
    ∧ R ge_completed_Add s ⟨B_c, F_Z⟩
      = (s ⟨B_p, F_Z⟩ * s ⟨B_q, F_Z⟩ + s ⟨B_p, F_Z⟩ * s ⟨B_q, F_Z⟩) + s ⟨B_q, F_T2d⟩ * s ⟨B_p, F_T⟩
    ∧ R ge_completed_Add s ⟨B_c, F_T⟩
      = (s ⟨B_p, F_Z⟩ * s ⟨B_q, F_Z⟩ + s ⟨B_p, F_Z⟩ * s ⟨B_q, F_Z⟩) - s ⟨B_q, F_T2d⟩ * s ⟨B_p, F_T⟩ := by
  refine ⟨?_, ?_, ?_, ?_⟩ <;> simp [R, run, ge_completed_Add, step, evalOp, ringOps]

/-- `Add` realises Edwards addition on representatives (a = -1), for all inputs. -/
theorem completed_Add_rep {d : F} (hc : Complete (-1) d) (s : Loc → F) {x1 y1 x2 y2 : F}
    (h1 : OnCurve (-1) d x1 y1) (h2 : OnCurve (-1) d x2 y2)
    (hp : ExtRep s B_p x1 y1) (hq : CachedRep d s B_q x2 y2) :
    CompRep (R ge_completed_Add s) B_c (addX d x1 y1 x2 y2) (addY (-1) d x1 y1 x2 y2) := by
  obtain ⟨vx, vy, vz, vt⟩ := completed_Add_vals s
  have hA := one_add_ne_zero hc h1 h2
  have hB := one_sub_ne_zero hc h1 h2
  have h2ne := hc.two_ne
  have hz : R ge_completed_Add s ⟨B_c, F_Z⟩ = 2 * s ⟨B_p, F_Z⟩ * s ⟨B_q, F_Z⟩ * (1 + d * x1 * x2 * y1 * y2) := by
    rw [vz, hq.t2d, hp.ht]; ring
  have ht : R ge_completed_Add s ⟨B_c, F_T⟩ = 2 * s ⟨B_p, F_Z⟩ * s ⟨B_q, F_Z⟩ * (1 - d * x1 * x2 * y1 * y2) := by
    rw [vt, hq.t2d, hp.ht]; ring
  have hzz : 2 * s ⟨B_p, F_Z⟩ * s ⟨B_q, F_Z⟩ ≠ 0 := mul_ne_zero (mul_ne_zero h2ne hp.hz) hq.hz
  refine ⟨?_, ?_, ?_, ?_⟩
  · rw [hz]; exact mul_ne_zero hzz hA
  · rw [ht]; exact mul_ne_zero hzz hB
  · rw [hz, vx, hp.hx, hp.hy, hq.yPlusX, hq.yMinusX]
    unfold addX
    obtain ⟨A, hAdef⟩ : ∃ A, A = 1 + d * x1 * x2 * y1 * y2 := ⟨_, rfl⟩
    rw [← hAdef] at hA ⊢
    field_simp
    ring
  · rw [ht, vy, hp.hx, hp.hy, hq.yPlusX, hq.yMinusX]
    unfold addY
    obtain ⟨B, hBdef⟩ : ∃ B, B = 1 - d * x1 * x2 * y1 * y2 := ⟨_, rfl⟩
    rw [← hBdef] at hB ⊢
    field_simp
    ring

/-! ### `completedGroupElement.Sub` : extended − cached → completed -/

set_option maxRecDepth 8000 in
theorem completed_Sub_vals (s : Loc → F) :
    R ge_completed_Sub s ⟨B_c, F_X⟩
      = (s ⟨B_p, F_Y⟩ + s ⟨B_p, F_X⟩) * s ⟨B_q, F_yMinusX⟩ - (s ⟨B_p, F_Y⟩ - s ⟨B_p, F_X⟩) * s ⟨B_q, F_yPlusX⟩
    ∧ R ge_completed_Sub s ⟨B_c, F_Y⟩
      = (s ⟨B_p, F_Y⟩ + s ⟨B_p, F_X⟩) * s ⟨B_q, F_yMinusX⟩ + (s ⟨B_p, F_Y⟩ - s ⟨B_p, F_X⟩) * s ⟨B_q, F_yPlusX⟩
    ∧ R ge_completed_Sub s ⟨B_c, F_Z⟩
      = (s ⟨B_p, F_Z⟩ * s ⟨B_q, F_Z⟩ + s ⟨B_p, F_Z⟩ * s ⟨B_q, F_Z⟩) - s ⟨B_q, F_T2d⟩ * s ⟨B_p, F_T⟩
    ∧ R ge_completed_Sub s ⟨B_c, F_T⟩
      = (s ⟨B_p, F_Z⟩ * s ⟨B_q, F_Z⟩ + s ⟨B_p, F_Z⟩ * s ⟨B_q, F_Z⟩) + s ⟨B_q, F_T2d⟩ * s ⟨B_p, F_T⟩ := by
  refine ⟨?_, ?_, ?_, ?_⟩ <;> simp [R, run, ge_completed_Sub, step, evalOp, ringOps]

/-- `Sub` realises `P₁ + (−P₂)`. -/
theorem completed_Sub_rep {d : F} (hc : Complete (-1) d) (s : Loc → F) {x1 y1 x2 y2 : F}
    (h1 : OnCurve (-1) d x1 y1) (h2 : OnCurve (-1) d x2 y2)
    (hp : ExtRep s B_p x1 y1) (hq : CachedRep d s B_q x2 y2) :
    CompRep (R ge_completed_Sub s) B_c (addX d x1 y1 (-x2) y2) (addY (-1) d x1 y1 (-x2) y2) := by
  obtain ⟨vx, vy, vz, vt⟩ := completed_Sub_vals s
  have h2' := neg_on h2
  have hA := one_add_ne_zero hc h1 h2'
  have hB := one_sub_ne_zero hc h1 h2'
  have h2ne := hc.two_ne
  have hz : R ge_completed_Sub s ⟨B_c, F_Z⟩ = 2 * s ⟨B_p, F_Z⟩ * s ⟨B_q, F_Z⟩ * (1 + d * x1 * (-x2) * y1 * y2) := by
    rw [vz, hq.t2d, hp.ht]; ring
  have ht : R ge_completed_Sub s ⟨B_c, F_T⟩ = 2 * s ⟨B_p, F_Z⟩ * s ⟨B_q, F_Z⟩ * (1 - d * x1 * (-x2) * y1 * y2) := by
    rw [vt, hq.t2d, hp.ht]; ring
  have hzz : 2 * s ⟨B_p, F_Z⟩ * s ⟨B_q, F_Z⟩ ≠ 0 := mul_ne_zero (mul_ne_zero h2ne hp.hz) hq.hz
  refine ⟨?_, ?_, ?_, ?_⟩
  · rw [hz]; exact mul_ne_zero hzz hA
  · rw [ht]; exact mul_ne_zero hzz hB
  · rw [hz, vx, hp.hx, hp.hy, hq.yPlusX, hq.yMinusX]
    unfold addX
    obtain ⟨A, hAdef⟩ : ∃ A, A = 1 + d * x1 * (-x2) * y1 * y2 := ⟨_, rfl⟩
    rw [← hAdef] at hA ⊢
    field_simp
    ring
  · rw [ht, vy, hp.hx, hp.hy, hq.yPlusX, hq.yMinusX]
    unfold addY
    obtain ⟨B, hBdef⟩ : ∃ B, B = 1 - d * x1 * (-x2) * y1 * y2 := ⟨_, rfl⟩
    rw [← hBdef] at hB ⊢
    field_simp
    ring

/-! ### `MixedAdd` / `MixedSub` : extended ± precomputed affine → completed -/

set_option maxRecDepth 8000 in
theorem completed_MixedAdd_vals (s : Loc → F) :
    R ge_completed_MixedAdd s ⟨B_c, F_X⟩
      = (s ⟨B_p, F_Y⟩ + s ⟨B_p, F_X⟩) * s ⟨B_q, F_yPlusX⟩ - (s ⟨B_p, F_Y⟩ - s ⟨B_p, F_X⟩) * s ⟨B_q, F_yMinusX⟩
    ∧ R ge_completed_MixedAdd s ⟨B_c, F_Y⟩
      = (s ⟨B_p, F_Y⟩ + s ⟨B_p, F_X⟩) * s ⟨B_q, F_yPlusX⟩ + (s ⟨B_p, F_Y⟩ - s ⟨B_p, F_X⟩) * s ⟨B_q, F_yMinusX⟩
    ∧ R ge_completed_MixedAdd s ⟨B_c, F_Z⟩
      = (s ⟨B_p, F_Z⟩ + s ⟨B_p, F_Z⟩) + s ⟨B_q, F_xy2d⟩ * s ⟨B_p, F_T⟩
    ∧ R ge_completed_MixedAdd s ⟨B_c, F_T⟩
      = (s ⟨B_p, F_Z⟩ + s ⟨B_p, F_Z⟩) - s ⟨B_q, F_xy2d⟩ * s ⟨B_p, F_T⟩ := by
  refine ⟨?_, ?_, ?_, ?_⟩ <;> simp [R, run, ge_completed_MixedAdd, step, evalOp, ringOps]

theorem completed_MixedAdd_rep {d : F} (hc : Complete (-1) d) (s : Loc → F) {x1 y1 x2 y2 : F}
    (h1 : OnCurve (-1) d x1 y1) (h2 : OnCurve (-1) d x2 y2)
    (hp : ExtRep s B_p x1 y1) (hq : PreRep d s B_q x2 y2) :
    CompRep (R ge_completed_MixedAdd s) B_c (addX d x1 y1 x2 y2) (addY (-1) d x1 y1 x2 y2) := by
  obtain ⟨vx, vy, vz, vt⟩ := completed_MixedAdd_vals s
  have hA := one_add_ne_zero hc h1 h2
  have hB := one_sub_ne_zero hc h1 h2
  have h2ne := hc.two_ne
  have hz : R ge_completed_MixedAdd s ⟨B_c, F_Z⟩ = 2 * s ⟨B_p, F_Z⟩ * (1 + d * x1 * x2 * y1 * y2) := by
    rw [vz, hq.xy2d, hp.ht]; ring
  have ht : R ge_completed_MixedAdd s ⟨B_c, F_T⟩ = 2 * s ⟨B_p, F_Z⟩ * (1 - d * x1 * x2 * y1 * y2) := by
    rw [vt, hq.xy2d, hp.ht]; ring
  have hzz : 2 * s ⟨B_p, F_Z⟩ ≠ 0 := mul_ne_zero h2ne hp.hz
  refine ⟨?_, ?_, ?_, ?_⟩
  · rw [hz]; exact mul_ne_zero hzz hA
  · rw [ht]; exact mul_ne_zero hzz hB
  · rw [hz, vx, hp.hx, hp.hy, hq.yPlusX, hq.yMinusX]
    unfold addX
    obtain ⟨A, hAdef⟩ : ∃ A, A = 1 + d * x1 * x2 * y1 * y2 := ⟨_, rfl⟩
    rw [← hAdef] at hA ⊢
    field_simp
    ring
  · rw [ht, vy, hp.hx, hp.hy, hq.yPlusX, hq.yMinusX]
    unfold addY
    obtain ⟨B, hBdef⟩ : ∃ B, B = 1 - d * x1 * x2 * y1 * y2 := ⟨_, rfl⟩
    rw [← hBdef] at hB ⊢
    field_simp
    ring

set_option maxRecDepth 8000 in
theorem completed_MixedSub_vals (s : Loc → F) :
    R ge_completed_MixedSub s ⟨B_c, F_X⟩
      = (s ⟨B_p, F_Y⟩ + s ⟨B_p, F_X⟩) * s ⟨B_q, F_yMinusX⟩ - (s ⟨B_p, F_Y⟩ - s ⟨B_p, F_X⟩) * s ⟨B_q, F_yPlusX⟩
    ∧ R ge_completed_MixedSub s ⟨B_c, F_Y⟩
      = (s ⟨B_p, F_Y⟩ + s ⟨B_p, F_X⟩) * s ⟨B_q, F_yMinusX⟩ + (s ⟨B_p, F_Y⟩ - s ⟨B_p, F_X⟩) * s ⟨B_q, F_yPlusX⟩
    ∧ R ge_completed_MixedSub s ⟨B_c, F_Z⟩
      = (s ⟨B_p, F_Z⟩ + s ⟨B_p, F_Z⟩) - s ⟨B_q, F_xy2d⟩ * s ⟨B_p, F_T⟩
    ∧ R ge_completed_MixedSub s ⟨B_c, F_T⟩
      = (s ⟨B_p, F_Z⟩ + s ⟨B_p, F_Z⟩) + s ⟨B_q, F_xy2d⟩ * s ⟨B_p, F_T⟩ := by
  refine ⟨?_, ?_, ?_, ?_⟩ <;> simp [R, run, ge_completed_MixedSub, step, evalOp, ringOps]

theorem completed_MixedSub_rep {d : F} (hc : Complete (-1) d) (s : Loc → F) {x1 y1 x2 y2 : F}
    (h1 : OnCurve (-1) d x1 y1) (h2 : OnCurve (-1) d x2 y2)
    (hp : ExtRep s B_p x1 y1) (hq : PreRep d s B_q x2 y2) :
    CompRep (R ge_completed_MixedSub s) B_c (addX d x1 y1 (-x2) y2) (addY (-1) d x1 y1 (-x2) y2) := by
  obtain ⟨vx, vy, vz, vt⟩ := completed_MixedSub_vals s
  have h2' := neg_on h2
  have hA := one_add_ne_zero hc h1 h2'
  have hB := one_sub_ne_zero hc h1 h2'
  have h2ne := hc.two_ne
  have hz : R ge_completed_MixedSub s ⟨B_c, F_Z⟩ = 2 * s ⟨B_p, F_Z⟩ * (1 + d * x1 * (-x2) * y1 * y2) := by
    rw [vz, hq.xy2d, hp.ht]; ring
  have ht : R ge_completed_MixedSub s ⟨B_c, F_T⟩ = 2 * s ⟨B_p, F_Z⟩ * (1 - d * x1 * (-x2) * y1 * y2) := by
    rw [vt, hq.xy2d, hp.ht]; ring
  have hzz : 2 * s ⟨B_p, F_Z⟩ ≠ 0 := mul_ne_zero h2ne hp.hz
  refine ⟨?_, ?_, ?_, ?_⟩
  · rw [hz]; exact mul_ne_zero hzz hA
  · rw [ht]; exact mul_ne_zero hzz hB
  · rw [hz, vx, hp.hx, hp.hy, hq.yPlusX, hq.yMinusX]
    unfold addX
    obtain ⟨A, hAdef⟩ : ∃ A, A = 1 + d * x1 * (-x2) * y1 * y2 := ⟨_, rfl⟩
    rw [← hAdef] at hA ⊢
    field_simp
    ring
  · rw [ht, vy, hp.hx, hp.hy, hq.yPlusX, hq.yMinusX]
    unfold addY
    obtain ⟨B, hBdef⟩ : ∃ B, B = 1 - d * x1 * (-x2) * y1 * y2 := ⟨_, rfl⟩
    rw [← hBdef] at hB ⊢
    field_simp
    ring

/-! ### Conversions -/

set_option maxRecDepth 8000 in
/-- `ToExtended` : completed → extended, same affine point. -/
theorem completed_ToExtended_rep (s : Loc → F) {x y : F} (hc : CompRep s B_c x y) :
    ExtRep (R ge_completed_ToExtended s) B_r x y := by
  have vx : R ge_completed_ToExtended s ⟨B_r, F_X⟩ = s ⟨B_c, F_X⟩ * s ⟨B_c, F_T⟩ := by
    simp [R, run, ge_completed_ToExtended, step, evalOp, ringOps]
  have vy : R ge_completed_ToExtended s ⟨B_r, F_Y⟩ = s ⟨B_c, F_Y⟩ * s ⟨B_c, F_Z⟩ := by
    simp [R, run, ge_completed_ToExtended, step, evalOp, ringOps]
  have vz : R ge_completed_ToExtended s ⟨B_r, F_Z⟩ = s ⟨B_c, F_Z⟩ * s ⟨B_c, F_T⟩ := by
    simp [R, run, ge_completed_ToExtended, step, evalOp, ringOps]
  have vt : R ge_completed_ToExtended s ⟨B_r, F_T⟩ = s ⟨B_c, F_X⟩ * s ⟨B_c, F_Y⟩ := by
    simp [R, run, ge_completed_ToExtended, step, evalOp, ringOps]
  refine ⟨?_, ?_, ?_, ?_⟩
  · rw [vz]; exact mul_ne_zero hc.hz hc.ht
  · rw [vx, vz, hc.hx]; ring
  · rw [vy, vz, hc.hy]; ring
  · rw [vt, vz, hc.hx, hc.hy]; ring

set_option maxRecDepth 8000 in
/-- `ToProjective` : completed → projective, same affine point. -/
theorem completed_ToProjective_rep (s : Loc → F) {x y : F} (hc : CompRep s B_c x y) :
    ProjRep (R ge_completed_ToProjective s) B_r x y := by
  have vx : R ge_completed_ToProjective s ⟨B_r, F_X⟩ = s ⟨B_c, F_X⟩ * s ⟨B_c, F_T⟩ := by
    simp [R, run, ge_completed_ToProjective, step, evalOp, ringOps]
  have vy : R ge_completed_ToProjective s ⟨B_r, F_Y⟩ = s ⟨B_c, F_Y⟩ * s ⟨B_c, F_Z⟩ := by
    simp [R, run, ge_completed_ToProjective, step, evalOp, ringOps]
  have vz : R ge_completed_ToProjective s ⟨B_r, F_Z⟩ = s ⟨B_c, F_Z⟩ * s ⟨B_c, F_T⟩ := by
    simp [R, run, ge_completed_ToProjective, step, evalOp, ringOps]
  refine ⟨?_, ?_, ?_⟩
  · rw [vz]; exact mul_ne_zero hc.hz hc.ht
  · rw [vx, vz, hc.hx]; ring
  · rw [vy, vz, hc.hy]; ring

set_option maxRecDepth 8000 in
/-- `extendedGroupElement.ToProjective` forgets T. -/
theorem extended_ToProjective_rep (s : Loc → F) {x y : F} (hp : ExtRep s B_p x y) :
    ProjRep (R ge_extended_ToProjective s) B_r x y := by
  have vx : R ge_extended_ToProjective s ⟨B_r, F_X⟩ = s ⟨B_p, F_X⟩ := by
    simp [R, run, ge_extended_ToProjective, step, evalOp, ringOps]
  have vy : R ge_extended_ToProjective s ⟨B_r, F_Y⟩ = s ⟨B_p, F_Y⟩ := by
    simp [R, run, ge_extended_ToProjective, step, evalOp, ringOps]
  have vz : R ge_extended_ToProjective s ⟨B_r, F_Z⟩ = s ⟨B_p, F_Z⟩ := by
    simp [R, run, ge_extended_ToProjective, step, evalOp, ringOps]
  exact ⟨by rw [vz]; exact hp.hz, by rw [vx, vz]; exact hp.hx, by rw [vy, vz]; exact hp.hy⟩

set_option maxRecDepth 8000 in
/-- `ToCached` : extended → cached, given that the constant `d2` holds `2d`. -/
theorem extended_ToCached_rep {d : F} (s : Loc → F) {x y : F} (hp : ExtRep s B_p x y)
    (hd2 : s ⟨B_global_d2, 0⟩ = 2 * d) :
    CachedRep d (R ge_extended_ToCached s) B_r x y := by
  have v1 : R ge_extended_ToCached s ⟨B_r, F_yPlusX⟩ = s ⟨B_p, F_Y⟩ + s ⟨B_p, F_X⟩ := by
    simp [R, run, ge_extended_ToCached, step, evalOp, ringOps]
  have v2 : R ge_extended_ToCached s ⟨B_r, F_yMinusX⟩ = s ⟨B_p, F_Y⟩ - s ⟨B_p, F_X⟩ := by
    simp [R, run, ge_extended_ToCached, step, evalOp, ringOps]
  have v3 : R ge_extended_ToCached s ⟨B_r, F_Z⟩ = s ⟨B_p, F_Z⟩ := by
    simp [R, run, ge_extended_ToCached, step, evalOp, ringOps]
  have v4 : R ge_extended_ToCached s ⟨B_r, F_T2d⟩ = s ⟨B_p, F_T⟩ * s ⟨B_global_d2, 0⟩ := by
    simp [R, run, ge_extended_ToCached, step, evalOp, ringOps]
  refine ⟨?_, ?_, ?_, ?_⟩
  · rw [v3]; exact hp.hz
  · rw [v1, v3, hp.hx, hp.hy]; ring
  · rw [v2, v3, hp.hx, hp.hy]; ring
  · rw [v4, v3, hp.ht, hd2]; ring

/-! ### Doubling -/

set_option maxRecDepth 8000 in
theorem projective_Double_vals (s : Loc → F) :
    R ge_projective_Double s ⟨B_r, F_X⟩
      = (s ⟨B_p, F_X⟩ + s ⟨B_p, F_Y⟩) * (s ⟨B_p, F_X⟩ + s ⟨B_p, F_Y⟩)
          - (s ⟨B_p, F_Y⟩ * s ⟨B_p, F_Y⟩ + s ⟨B_p, F_X⟩ * s ⟨B_p, F_X⟩)
    ∧ R ge_projective_Double s ⟨B_r, F_Y⟩ = s ⟨B_p, F_Y⟩ * s ⟨B_p, F_Y⟩ + s ⟨B_p, F_X⟩ * s ⟨B_p, F_X⟩
    ∧ R ge_projective_Double s ⟨B_r, F_Z⟩ = s ⟨B_p, F_Y⟩ * s ⟨B_p, F_Y⟩ - s ⟨B_p, F_X⟩ * s ⟨B_p, F_X⟩
    ∧ R ge_projective_Double s ⟨B_r, F_T⟩
      = (s ⟨B_p, F_Z⟩ * s ⟨B_p, F_Z⟩ + s ⟨B_p, F_Z⟩ * s ⟨B_p, F_Z⟩)
          - (s ⟨B_p, F_Y⟩ * s ⟨B_p, F_Y⟩ - s ⟨B_p, F_X⟩ * s ⟨B_p, F_X⟩) := by
  refine ⟨?_, ?_, ?_, ?_⟩ <;> simp [R, run, ge_projective_Double, step, evalOp, ringOps]

/-- `Double` realises `P + P` (a = -1): uses the curve equation to rewrite the denominators. -/
theorem projective_Double_rep {d : F} (hc : Complete (-1) d) (s : Loc → F) {x y : F}
    (h1 : OnCurve (-1) d x y) (hp : ProjRep s B_p x y) :
    CompRep (R ge_projective_Double s) B_r (addX d x y x y) (addY (-1) d x y x y) := by
  obtain ⟨vx, vy, vz, vt⟩ := projective_Double_vals s
  have hA := one_add_ne_zero hc h1 h1
  have hB := one_sub_ne_zero hc h1 h1
  unfold OnCurve at h1
  -- y² - x² = 1 + d x² y²  and  2 - (y² - x²) = 1 - d x² y²
  have hz : R ge_projective_Double s ⟨B_r, F_Z⟩ = s ⟨B_p, F_Z⟩ ^ 2 * (1 + d * x * x * y * y) := by
    rw [vz, hp.hx, hp.hy]; linear_combination (s ⟨B_p, F_Z⟩ ^ 2) * h1
  have ht : R ge_projective_Double s ⟨B_r, F_T⟩ = s ⟨B_p, F_Z⟩ ^ 2 * (1 - d * x * x * y * y) := by
    rw [vt, hp.hx, hp.hy]; linear_combination (-(s ⟨B_p, F_Z⟩ ^ 2)) * h1
  have hzz : s ⟨B_p, F_Z⟩ ^ 2 ≠ 0 := pow_ne_zero 2 hp.hz
  refine ⟨?_, ?_, ?_, ?_⟩
  · rw [hz]; exact mul_ne_zero hzz hA
  · rw [ht]; exact mul_ne_zero hzz hB
  · rw [hz, vx, hp.hx, hp.hy]
    unfold addX
    obtain ⟨A, hAdef⟩ : ∃ A, A = 1 + d * x * x * y * y := ⟨_, rfl⟩
    rw [← hAdef] at hA ⊢
    field_simp
    ring
  · rw [ht, vy, hp.hx, hp.hy]
    unfold addY
    obtain ⟨B, hBdef⟩ : ∃ B, B = 1 - d * x * x * y * y := ⟨_, rfl⟩
    rw [← hBdef] at hB ⊢
    field_simp
    ring

/-! ### Negation and identity -/

set_option maxRecDepth 8000 in
theorem extended_Neg_rep (s : Loc → F) {x y : F} (hs : ExtRep s B_s x y) :
    ExtRep (R ge_extended_Neg s) B_p (-x) y := by
  have vx : R ge_extended_Neg s ⟨B_p, F_X⟩ = -s ⟨B_s, F_X⟩ := by
    simp [R, run, ge_extended_Neg, step, evalOp, ringOps]
  have vy : R ge_extended_Neg s ⟨B_p, F_Y⟩ = s ⟨B_s, F_Y⟩ := by
    simp [R, run, ge_extended_Neg, step, evalOp, ringOps]
  have vz : R ge_extended_Neg s ⟨B_p, F_Z⟩ = s ⟨B_s, F_Z⟩ := by
    simp [R, run, ge_extended_Neg, step, evalOp, ringOps]
  have vt : R ge_extended_Neg s ⟨B_p, F_T⟩ = -s ⟨B_s, F_T⟩ := by
    simp [R, run, ge_extended_Neg, step, evalOp, ringOps]
  refine ⟨?_, ?_, ?_, ?_⟩
  · rw [vz]; exact hs.hz
  · rw [vx, vz, hs.hx]; ring
  · rw [vy, vz, hs.hy]
  · rw [vt, vz, hs.ht]; ring

set_option maxRecDepth 8000 in
theorem extended_Zero_rep (s : Loc → F) : ExtRep (R ge_extended_Zero s) B_p (0 : F) 1 := by
  have vx : R ge_extended_Zero s ⟨B_p, F_X⟩ = 0 := by simp [R, run, ge_extended_Zero, step, evalOp, ringOps]
  have vy : R ge_extended_Zero s ⟨B_p, F_Y⟩ = 1 := by simp [R, run, ge_extended_Zero, step, evalOp, ringOps]
  have vz : R ge_extended_Zero s ⟨B_p, F_Z⟩ = 1 := by simp [R, run, ge_extended_Zero, step, evalOp, ringOps]
  have vt : R ge_extended_Zero s ⟨B_p, F_T⟩ = 0 := by simp [R, run, ge_extended_Zero, step, evalOp, ringOps]
  exact ⟨by rw [vz]; exact one_ne_zero, by rw [vx, vz]; ring, by rw [vy, vz]; ring, by rw [vt, vz]; ring⟩

set_option maxRecDepth 8000 in
theorem cached_Neg_rep {d : F} (s : Loc → F) {x y : F} (ht : CachedRep d s B_t x y) :
    CachedRep d (R ge_cached_Neg s) B_r (-x) y := by
  have v1 : R ge_cached_Neg s ⟨B_r, F_yPlusX⟩ = s ⟨B_t, F_yMinusX⟩ := by
    simp [R, run, ge_cached_Neg, step, evalOp, ringOps]
  have v2 : R ge_cached_Neg s ⟨B_r, F_yMinusX⟩ = s ⟨B_t, F_yPlusX⟩ := by
    simp [R, run, ge_cached_Neg, step, evalOp, ringOps]
  have v3 : R ge_cached_Neg s ⟨B_r, F_Z⟩ = s ⟨B_t, F_Z⟩ := by
    simp [R, run, ge_cached_Neg, step, evalOp, ringOps]
  have v4 : R ge_cached_Neg s ⟨B_r, F_T2d⟩ = -s ⟨B_t, F_T2d⟩ := by
    simp [R, run, ge_cached_Neg, step, evalOp, ringOps]
  refine ⟨?_, ?_, ?_, ?_⟩
  · rw [v3]; exact ht.hz
  · rw [v1, v3, ht.yMinusX]; ring
  · rw [v2, v3, ht.yPlusX]; ring
  · rw [v4, v3, ht.t2d]; ring

set_option maxRecDepth 8000 in
theorem precomp_Neg_rep {d : F} (s : Loc → F) {x y : F} (ht : PreRep d s B_t x y) :
    PreRep d (R ge_precomp_Neg s) B_p (-x) y := by
  have v1 : R ge_precomp_Neg s ⟨B_p, F_yPlusX⟩ = s ⟨B_t, F_yMinusX⟩ := by
    simp [R, run, ge_precomp_Neg, step, evalOp, ringOps]
  have v2 : R ge_precomp_Neg s ⟨B_p, F_yMinusX⟩ = s ⟨B_t, F_yPlusX⟩ := by
    simp [R, run, ge_precomp_Neg, step, evalOp, ringOps]
  have v3 : R ge_precomp_Neg s ⟨B_p, F_xy2d⟩ = -s ⟨B_t, F_xy2d⟩ := by
    simp [R, run, ge_precomp_Neg, step, evalOp, ringOps]
  refine ⟨?_, ?_, ?_⟩
  · rw [v1, ht.yMinusX]; ring
  · rw [v2, ht.yPlusX]; ring
  · rw [v3, ht.xy2d]; ring

end Kyber.IR.Ed
