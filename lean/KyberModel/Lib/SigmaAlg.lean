import KyberModel.Lib.SigmaScope
/-
C14 helper lemmas, part 3: the algebra of one verification equation, in `ZMod q`.
-/
namespace Kyber.Sigma
open Kyber Kyber.Scalar

/-- `Σ f(s)·B` over the terms of a Rep, in `ZMod q`. -/
def linComb (q : Nat) (pval : Nat → Nat) (f : Nat → ZMod q) (ts : List Term) : ZMod q :=
  (ts.map (fun t => f t.s * (pval t.b : ZMod q))).sum

theorem linComb_sub_mul (q : Nat) (pval : Nat → Nat) (f g h : Nat → ZMod q) (c : ZMod q) :
    ∀ ts : List Term, (∀ t ∈ ts, f t.s = g t.s - c * h t.s) →
      linComb q pval f ts = linComb q pval g ts - c * linComb q pval h ts := by
  intro ts
  induction ts with
  | nil => intro _; simp [linComb]
  | cons t ts ih =>
    intro hf
    have h1 := hf t (List.mem_cons_self ..)
    have h2 := ih (fun t' ht' => hf t' (List.mem_cons_of_mem _ ht'))
    simp only [linComb, List.map_cons, List.sum_cons] at h2 ⊢
    rw [h2, h1]; ring

theorem linComb_congr (q : Nat) (pval : Nat → Nat) (f g : Nat → ZMod q) :
    ∀ ts : List Term, (∀ t ∈ ts, f t.s = g t.s) → linComb q pval f ts = linComb q pval g ts := by
  intro ts
  induction ts with
  | nil => intro _; rfl
  | cons t ts ih =>
    intro hf
    simp only [linComb, List.map_cons, List.sum_cons]
    rw [hf t (List.mem_cons_self ..)]
    have := ih (fun t' ht' => hf t' (List.mem_cons_of_mem _ ht'))
    simp only [linComb] at this
    rw [this]

/-- Value of `sumTerms` in `ZMod q`. -/
theorem sumTerms_cast (q : Nat) (pval : Nat → Nat) (r : Vec) :
    ∀ (ts : List Term) (V0 V : Nat), sumTerms q pval r ts V0 = .ok V →
      (V : ZMod q) = (V0 : ZMod q) + linComb q pval (fun s => (((r s).getD 0 : Nat) : ZMod q)) ts := by
  intro ts
  induction ts with
  | nil =>
    intro V0 V h
    simp only [sumTerms, Except.ok.injEq] at h
    simp [linComb, h]
  | cons t ts ih =>
    intro V0 V h
    unfold sumTerms at h
    cases hr : r t.s with
    | none => rw [hr] at h; cases h
    | some x =>
      rw [hr] at h
      have := ih _ _ h
      rw [this, add_cast, mul_cast]
      simp only [linComb, List.map_cons, List.sum_cons, hr, Option.getD_some]
      ring

theorem sumTerms_ok (q : Nat) (pval : Nat → Nat) (r : Vec) :
    ∀ (ts : List Term) (V0 : Nat), (∀ t ∈ ts, (r t.s).isSome) → ∃ V, sumTerms q pval r ts V0 = .ok V := by
  intro ts
  induction ts with
  | nil => intro V0 _; exact ⟨V0, rfl⟩
  | cons t ts ih =>
    intro V0 h
    obtain ⟨x, hx⟩ := Option.isSome_iff_exists.mp (h t (List.mem_cons_self ..))
    unfold sumTerms
    rw [hx]
    exact ih _ (fun t' ht' => h t' (List.mem_cons_of_mem _ ht'))

/-- Simulated branch: responding with the blinding vector to the pre-challenge `w` reproduces the
    commitment, whatever the statement. -/
theorem repChecks_simulated (E : Params) (w : Nat) (vf r : Vec) (rp : RepS) (V : Nat)
    (hV : sumTerms E.q E.pval vf rp.ts (w0 E (some w) rp.p) = .ok V)
    (hr : ∀ t ∈ rp.ts, r t.s = vf t.s) : RepChecks E w r rp V := by
  unfold RepChecks
  rw [sumTerms_congr E.q E.pval r vf rp.ts _ hr]
  exact hV

/-- Obligated branch: the prover answered challenge `c` with `v − c·x`; the verifier checks with
    challenge `c'`. The equation holds iff `c'·P = c·Σ x·B`. -/
theorem repChecks_obligated (E : Params) (hq : 0 < E.q) (sval : Nat → Nat) (c c' : Nat) (vf r : Vec)
    (rp : RepS) (V : Nat) (hV : sumTerms E.q E.pval vf rp.ts (w0 E none rp.p) = .ok V)
    (hr : ∀ t ∈ rp.ts, r t.s = (vf t.s).map (fun vs => sub E.q vs (mul E.q c (sval t.s)))) :
    RepChecks E c' r rp V ↔
      (c' : ZMod E.q) * (E.pval rp.p : ZMod E.q) =
        (c : ZMod E.q) * linComb E.q E.pval (fun s => (sval s : ZMod E.q)) rp.ts := by
  have hVlt : V < E.q := sumTerms_lt E.q E.pval hq vf rp.ts _ _ (w0_lt E hq none rp.p) hV
  have hdef : ∀ t ∈ rp.ts, (vf t.s).isSome := by
    intro t ht
    by_contra hn
    have hnone : vf t.s = none := by simpa using hn
    -- `sumTerms` over `vf` would have failed
    have : ∀ (ts : List Term) (V0 : Nat), t ∈ ts → sumTerms E.q E.pval vf ts V0 ≠ .ok V := by
      intro ts
      induction ts with
      | nil => intro _ h; cases h
      | cons t' ts ih =>
        intro V0 hmem
        unfold sumTerms
        rcases List.mem_cons.mp hmem with rfl | hmem
        · rw [hnone]; intro h; cases h
        · cases hv : vf t'.s with
          | none => intro h; cases h
          | some x => exact ih _ hmem
    exact this rp.ts _ ht hV
  have hrdef : ∀ t ∈ rp.ts, (r t.s).isSome := by
    intro t ht
    rw [hr t ht]
    obtain ⟨x, hx⟩ := Option.isSome_iff_exists.mp (hdef t ht)
    rw [hx]; rfl
  obtain ⟨V', hV'⟩ := sumTerms_ok E.q E.pval r rp.ts (mul E.q c' (E.pval rp.p)) hrdef
  have hV'lt : V' < E.q := sumTerms_lt E.q E.pval hq r rp.ts _ _ (Nat.mod_lt _ hq) hV'
  have e1 := sumTerms_cast E.q E.pval r rp.ts _ _ hV'
  have e2 := sumTerms_cast E.q E.pval vf rp.ts _ _ hV
  have hterm : ∀ t ∈ rp.ts, (((r t.s).getD 0 : Nat) : ZMod E.q) =
      (((vf t.s).getD 0 : Nat) : ZMod E.q) - (c : ZMod E.q) * (sval t.s : ZMod E.q) := by
    intro t ht
    rw [hr t ht]
    obtain ⟨x, hx⟩ := Option.isSome_iff_exists.mp (hdef t ht)
    rw [hx]
    simp only [Option.map_some, Option.getD_some]
    rw [sub_cast hq, mul_cast]
  have e3 := linComb_sub_mul E.q E.pval (fun s => (((r s).getD 0 : Nat) : ZMod E.q))
    (fun s => (((vf s).getD 0 : Nat) : ZMod E.q)) (fun s => (sval s : ZMod E.q)) (c : ZMod E.q) rp.ts hterm
  unfold RepChecks
  rw [hV']
  simp only [Except.ok.injEq]
  rw [eq_iff_cast_eq V' V hV'lt hVlt, e1, e2, e3, mul_cast]
  simp only [w0, Nat.cast_zero, zero_add]
  constructor
  · intro h; linear_combination h
  · intro h; linear_combination h

end Kyber.Sigma
