import KyberModel.Proto.Bls
import KyberModel.Props.C02
import Mathlib.Algebra.BigOperators.Group.List.Basic
import Mathlib.Algebra.BigOperators.Ring.List
/-
Helper lemmas for the BLS / BDN models (C09): the model operations in `ZMod q`, the two aggregation
loops as sums.
-/
namespace Kyber.Bls
open Kyber.Scalar

variable {q : Nat}

theorem pair_lt (hq : 0 < q) (a b : Nat) : pair q a b < q := mul_lt hq a b

theorem pair_cast (a b : Nat) : ((pair q a b : Nat) : ZMod q) = (a : ZMod q) * b := mul_cast a b

theorem base_cast : ((base q : Nat) : ZMod q) = 1 := one_cast

theorem validatePairing_iff (hq : 0 < q) (p1 p2 i1 i2 : Nat) :
    validatePairing q p1 p2 i1 i2 = true ↔ (p1 : ZMod q) * p2 = (i1 : ZMod q) * i2 := by
  unfold validatePairing
  rw [beq_iff_eq, eq_iff_cast_eq _ _ (pair_lt hq _ _) (pair_lt hq _ _), pair_cast, pair_cast]

/-- The pairing check of either constructor says `σ = X·h` on discrete logs. -/
theorem verifyPoint_iff (hq : 0 < q) (sg : SigGroup) (X h s : Nat) :
    verifyPoint q sg X h s = true ↔ (s : ZMod q) = (X : ZMod q) * h := by
  cases sg <;> simp only [verifyPoint, validatePairing_iff hq, base_cast]
  · rw [mul_one, mul_comm]; exact eq_comm
  · rw [one_mul]; exact eq_comm

theorem sign_cast (x h : Nat) : ((sign q x h : Nat) : ZMod q) = (x : ZMod q) * h := mul_cast x h

theorem publicKey_cast (x : Nat) : ((publicKey q x : Nat) : ZMod q) = x := by
  unfold publicKey; rw [mul_cast, base_cast, mul_one]

/-! ### BDN aggregation loops -/

/-- Honest signature list for the bits set in `[i, i+fuel)`. -/
def honestSigs (q : Nat) (bits : Nat → Bool) (xs : List Nat) (h i fuel : Nat) : List (Option Nat) :=
  ((List.range' i fuel).filter bits).map (fun j => some (sign q (xs.getD j 0) h))

theorem aggSigLoop_honest (bits : Nat → Bool) (coefs xs : List Nat) (h : Nat) :
    ∀ (fuel i agg : Nat), i + fuel ≤ coefs.length →
    ∃ v, aggSigLoop q bits (some coefs) fuel i (honestSigs q bits xs h i fuel) agg = .ok v ∧
      (v : ZMod q) = agg + (((List.range' i fuel).filter bits).map
        (fun j => ((coefs.getD j 0 : ZMod q) + 1) * (xs.getD j 0 : ZMod q) * h)).sum := by
  intro fuel
  induction fuel with
  | zero => intro i agg _; exact ⟨agg, by simp [aggSigLoop, honestSigs], by simp⟩
  | succ fuel ih =>
    intro i agg hi
    have hlt : i < coefs.length := by omega
    rw [honestSigs, List.range'_succ]
    by_cases hb : bits i = true
    · simp only [List.filter_cons, hb, if_true, List.map_cons, aggSigLoop, List.getElem?_eq_getElem hlt]
      obtain ⟨v, hv, hc⟩ := ih (i + 1) (add q agg (add q (mul q coefs[i] (sign q (xs.getD i 0) h)) (sign q (xs.getD i 0) h))) (by omega)
      refine ⟨v, hv, ?_⟩
      rw [hc, add_cast, add_cast, mul_cast, sign_cast, List.sum_cons]
      have : (coefs.getD i 0 : ZMod q) = (coefs[i] : ZMod q) := by
        simp [List.getD_eq_getElem?_getD, List.getElem?_eq_getElem hlt]
      rw [this]
      ring
    · have hb' : bits i = false := by simpa using hb
      simp only [List.filter_cons, hb', aggSigLoop]
      simpa [honestSigs] using ih (i + 1) agg (by omega)

theorem aggPubLoop_spec (bits : Nat → Bool) (terms : List Nat) :
    ∀ (fuel i agg : Nat), i + fuel ≤ terms.length →
    ∃ v, aggPubLoop q bits (some terms) fuel i agg = .ok v ∧
      (v : ZMod q) = agg + (((List.range' i fuel).filter bits).map (fun j => (terms.getD j 0 : ZMod q))).sum := by
  intro fuel
  induction fuel with
  | zero => intro i agg _; exact ⟨agg, by simp [aggPubLoop], by simp⟩
  | succ fuel ih =>
    intro i agg hi
    have hlt : i < terms.length := by omega
    rw [List.range'_succ]
    by_cases hb : bits i = true
    · simp only [List.filter_cons, hb, if_true, List.map_cons, aggPubLoop, List.getElem?_eq_getElem hlt]
      obtain ⟨v, hv, hc⟩ := ih (i + 1) (add q agg terms[i]) (by omega)
      refine ⟨v, hv, ?_⟩
      rw [hc, add_cast, List.sum_cons]
      have : (terms.getD i 0 : ZMod q) = (terms[i] : ZMod q) := by
        simp [List.getD_eq_getElem?_getD, List.getElem?_eq_getElem hlt]
      rw [this]
      ring
    · have hb' : bits i = false := by simpa using hb
      simp only [List.filter_cons, hb', aggPubLoop]
      simpa using ih (i + 1) agg (by omega)

theorem publicTerms_length (pubs coefs : List Nat) :
    (publicTerms q pubs coefs).length = min pubs.length coefs.length := by
  simp [publicTerms]

theorem publicTerms_getD (pubs coefs : List Nat) (j : Nat) (hp : j < pubs.length) (hc : j < coefs.length) :
    (((publicTerms q pubs coefs).getD j 0 : Nat) : ZMod q)
      = ((coefs.getD j 0 : ZMod q) + 1) * (pubs.getD j 0 : ZMod q) := by
  have hl : j < (publicTerms q pubs coefs).length := by rw [publicTerms_length]; omega
  simp only [List.getD_eq_getElem?_getD, List.getElem?_eq_getElem hl, List.getElem?_eq_getElem hp,
    List.getElem?_eq_getElem hc, Option.getD_some]
  simp only [publicTerms, List.getElem_zipWith, add_cast, mul_cast]
  ring

/-- Discrete log the BDN aggregate key over a mask must have: `Σ_{bit i set, i < n} (c_i + 1)·x_i`. -/
noncomputable def bdnKey (q : Nat) (bits : Nat → Bool) (coefs xs : List Nat) (n : Nat) : ZMod q :=
  (((List.range' 0 n).filter bits).map (fun j => ((coefs.getD j 0 : ZMod q) + 1) * (xs.getD j 0 : ZMod q))).sum

end Kyber.Bls
