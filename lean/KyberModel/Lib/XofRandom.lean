import KyberModel.Proto.Random
import KyberModel.Lib.Bytes
import Mathlib.Data.Fintype.Pi
import Mathlib.Data.Fintype.Card
import Mathlib.Logic.Equiv.Fin.Basic
import Mathlib.Tactic.Ring
import Mathlib.Tactic.Linarith
/-
Helper lemmas for C19 (util/random model). Property theorems are in Props/C19.lean.
-/
namespace Kyber.Random
open Kyber.Scalar

/-! ### big-endian values -/

theorem foldl_decode (acc : Nat) (l : Bytes) :
    l.foldl (fun acc b => acc * 256 + b.toNat) acc = acc * 256 ^ l.length + decodeBE l := by
  induction l generalizing acc with
  | nil => simp [decodeBE]
  | cons b l ih =>
    simp only [List.foldl_cons, List.length_cons, decodeBE]
    rw [ih, ih (0 * 256 + b.toNat)]
    ring

theorem decodeBE_cons (b : UInt8) (rest : Bytes) :
    decodeBE (b :: rest) = b.toNat * 256 ^ rest.length + decodeBE rest := by
  simp only [decodeBE, List.foldl_cons]
  rw [foldl_decode]
  simp [decodeBE]

theorem two_pow_split (k h : Nat) : 2 ^ (8 * k + h) = 2 ^ h * 256 ^ k := by
  rw [pow_add, pow_mul, mul_comm]; norm_num

/-- A string whose top byte is below `T` is below `T·256^k`; if the top byte is at least `L`, the value
    is at least `L·256^k`. -/
theorem decodeBE_top_lt (t : UInt8) (rest : Bytes) (T : Nat) (h : t.toNat < T) :
    decodeBE (t :: rest) < T * 256 ^ rest.length := by
  rw [decodeBE_cons]
  have h1 := decodeBE_lt rest
  have : (t.toNat + 1) * 256 ^ rest.length ≤ T * 256 ^ rest.length := Nat.mul_le_mul_right _ h
  nlinarith

theorem decodeBE_top_ge (t : UInt8) (rest : Bytes) (L : Nat) (h : L ≤ t.toNat) :
    L * 256 ^ rest.length ≤ decodeBE (t :: rest) := by
  rw [decodeBE_cons]
  have : L * 256 ^ rest.length ≤ t.toNat * 256 ^ rest.length := Nat.mul_le_mul_right _ h
  omega

/-! ### single bytes -/

theorem maskByte_toNat (hb : Nat) (b : UInt8) (h : hb ≤ 8) : (maskByte hb b).toNat = b.toNat % 2 ^ hb := by
  have hb8 : b.toNat < 256 := UInt8.toNat_lt b
  have hp : 2 ^ hb ≤ 256 := by
    calc 2 ^ hb ≤ 2 ^ 8 := Nat.pow_le_pow_right (by norm_num) h
      _ = 256 := by norm_num
  have : b.toNat % 2 ^ hb < 256 := lt_of_lt_of_le (Nat.mod_lt _ (by positivity)) hp
  simp [maskByte, UInt8.toNat_ofNat', Nat.mod_eq_of_lt this]

theorem topByte_toNat (top : Nat) (b : UInt8) (h : b.toNat ||| top < 256) :
    (topByte top b).toNat = b.toNat ||| top := by
  have ht : top < 256 := lt_of_le_of_lt Nat.right_le_or h
  simp [topByte, UInt8.toNat_ofNat', Nat.mod_eq_of_lt ht]

/-- Setting bit `h-1` in a value below `2^h` keeps it below `2^h` and makes it at least `2^(h-1)`. -/
theorem or_top_bounds (x h : Nat) (hx : x < 2 ^ h) (hh : 1 ≤ h) :
    (x ||| 2 ^ (h - 1)) < 2 ^ h ∧ 2 ^ (h - 1) ≤ (x ||| 2 ^ (h - 1)) := by
  constructor
  · apply Nat.or_lt_two_pow hx
    exact Nat.pow_lt_pow_right (by norm_num) (by omega)
  · exact Nat.right_le_or

/-! ### `Bits` in closed form -/

/-- number of significant bits in the top byte: `bitlen % 8`, or 8 when that is zero -/
def topBits (bitlen : Nat) : Nat := if bitlen % 8 = 0 then 8 else bitlen % 8

theorem bitlen_split (bl : Nat) (h : 1 ≤ bl) : bl = 8 * (bitsLen bl - 1) + topBits bl := by
  unfold bitsLen topBits
  split <;> omega

theorem topBits_bounds (bl : Nat) : 1 ≤ topBits bl ∧ topBits bl ≤ 8 := by
  unfold topBits; split <;> omega

/-- For `bitlen ≥ 1` and a raw string of the right length, `Bits` never panics; it rewrites the top byte
    only, to a value `< 2^topBits`, and `≥ 2^(topBits-1)` when exact. -/
theorem bits_pos (g : Bool) (bl : Nat) (exact : Bool) (raw : Bytes) (hbl : 1 ≤ bl)
    (hlen : raw.length = bitsLen bl) :
    ∃ t rest, bits g bl exact raw = some (t :: rest) ∧ rest.length = bitsLen bl - 1 ∧
      t.toNat < 2 ^ topBits bl ∧ (exact = true → 2 ^ (topBits bl - 1) ≤ t.toNat) ∧
      ∃ b, raw = b :: rest := by
  have hnb : 1 ≤ bitsLen bl := by unfold bitsLen; omega
  match raw, hlen with
  | [], hl => simp at hl; omega
  | b :: rest, hl =>
    have hrest : rest.length = bitsLen bl - 1 := by simp at hl; omega
    have hb8 : b.toNat < 256 := UInt8.toNat_lt b
    have hg : (g && bl == 0) = false := by
      have : (bl == 0) = false := by simp; omega
      simp [this]
    unfold bits
    rw [hg]
    simp only [Bool.false_eq_true, ↓reduceIte]
    by_cases h0 : bl % 8 = 0
    · -- whole top byte
      have htb : topBits bl = 8 := by simp [topBits, h0]
      simp only [h0, ne_eq, not_true_eq_false, ↓reduceIte]
      cases exact with
      | false =>
        refine ⟨b, rest, by simp, hrest, by rw [htb]; simpa using hb8, by simp, b, rfl⟩
      | true =>
        have hor : b.toNat ||| 128 < 256 := by
          have h1 : b.toNat < 2 ^ 8 := by simpa using hb8
          have h2 : 128 < 2 ^ 8 := by norm_num
          have := Nat.or_lt_two_pow h1 h2
          simpa using this
        refine ⟨topByte 128 b, rest, by simp [setHead], hrest, ?_, ?_, b, rfl⟩
        · rw [htb, topByte_toNat _ _ hor]; simpa using hor
        · intro _; rw [htb, topByte_toNat _ _ hor]
          have : 128 ≤ b.toNat ||| 128 := Nat.right_le_or
          simpa using this
    · have htb : topBits bl = bl % 8 := by simp [topBits, h0]
      have hlt8 : bl % 8 ≤ 8 := by omega
      have hm := maskByte_toNat (bl % 8) b hlt8
      have hmlt : (maskByte (bl % 8) b).toNat < 2 ^ (bl % 8) := by
        rw [hm]; exact Nat.mod_lt _ (by positivity)
      simp only [ne_eq, h0, not_false_eq_true, ↓reduceIte, setHead]
      cases exact with
      | false =>
        refine ⟨maskByte (bl % 8) b, rest, by simp, hrest, by rw [htb]; exact hmlt, by simp, b, rfl⟩
      | true =>
        obtain ⟨hb1, hb2⟩ := or_top_bounds _ (bl % 8) hmlt (by omega)
        have h256 : (maskByte (bl % 8) b).toNat ||| 2 ^ (bl % 8 - 1) < 256 := by
          have : 2 ^ (bl % 8) ≤ 2 ^ 8 := Nat.pow_le_pow_right (by norm_num) hlt8
          omega
        refine ⟨topByte (2 ^ (bl % 8 - 1)) (maskByte (bl % 8) b), rest, by simp, hrest, ?_, ?_, b, rfl⟩
        · rw [htb, topByte_toNat _ _ h256]; exact hb1
        · intro _; rw [htb, topByte_toNat _ _ h256]; exact hb2

/-- For `bitlen = 0` the raw string is empty. -/
theorem bits_zero (g : Bool) (exact : Bool) :
    bits g 0 exact [] = if g then some [] else if exact then none else some [] := by
  cases g <;> cases exact <;> rfl

/-- As the sampler `Kyber.Scalar.pick` uses it: non-exact `Bits` is `maskBits`. -/
theorem bits_eq_maskBits (g : Bool) (bl : Nat) (raw : Bytes) (hlen : raw.length = bitsLen bl) :
    bits g bl false raw = some (maskBits bl raw) := by
  by_cases hbl : bl = 0
  · subst hbl
    have : raw = [] := by simpa [bitsLen] using hlen
    subst this
    cases g <;> rfl
  · have hg : (g && bl == 0) = false := by
      have : (bl == 0) = false := by simp; omega
      simp [this]
    match raw, hlen with
    | [], hl => simp [bitsLen] at hl; omega
    | b :: rest, _ =>
      unfold bits
      rw [hg]
      by_cases h0 : bl % 8 = 0
      · simp [h0, maskBits]
      · simp [h0, maskBits, setHead, maskByte]

/-! ### Masking is reduction modulo `2^bitlen` (no bias is introduced before the rejection step) -/

theorem maskBits_decode (bl : Nat) (raw : Bytes) (hlen : raw.length = bitsLen bl) :
    decodeBE (maskBits bl raw) = decodeBE raw % 2 ^ bl := by
  match raw, hlen with
  | [], hl =>
    simp [maskBits, decodeBE]
  | b :: rest, hl =>
    have hbl : 1 ≤ bl := by
      by_contra h
      have : bl = 0 := by omega
      subst this
      simp [bitsLen] at hl
    have hrest : rest.length = bitsLen bl - 1 := by simp at hl; omega
    have hsplit := bitlen_split bl hbl
    have hpow : 2 ^ bl = 2 ^ topBits bl * 256 ^ rest.length := by
      rw [hrest]; conv_lhs => rw [hsplit]
      exact two_pow_split _ _
    by_cases h0 : bl % 8 = 0
    · have htb : topBits bl = 8 := by simp [topBits, h0]
      have hlt : decodeBE (b :: rest) < 2 ^ bl := by
        rw [hpow, htb]
        exact decodeBE_top_lt b rest (2 ^ 8) (by simpa using UInt8.toNat_lt b)
      simp only [maskBits, h0, ↓reduceIte]
      exact (Nat.mod_eq_of_lt hlt).symm
    · have htb : topBits bl = bl % 8 := by simp [topBits, h0]
      have hm : (UInt8.ofNat (b.toNat % 2 ^ (bl % 8))).toNat = b.toNat % 2 ^ (bl % 8) :=
        maskByte_toNat (bl % 8) b (by omega)
      simp only [maskBits, h0, ↓reduceIte]
      rw [decodeBE_cons, decodeBE_cons, hm, hpow, htb]
      have hr := decodeBE_lt rest
      have hmod : b.toNat % 2 ^ (bl % 8) < 2 ^ (bl % 8) := Nat.mod_lt _ (by positivity)
      have hlt : b.toNat % 2 ^ (bl % 8) * 256 ^ rest.length + decodeBE rest
          < 2 ^ (bl % 8) * 256 ^ rest.length := by
        have : (b.toNat % 2 ^ (bl % 8) + 1) * 256 ^ rest.length ≤ 2 ^ (bl % 8) * 256 ^ rest.length :=
          Nat.mul_le_mul_right _ hmod
        nlinarith
      have hdecomp : b.toNat * 256 ^ rest.length + decodeBE rest =
          (b.toNat % 2 ^ (bl % 8) * 256 ^ rest.length + decodeBE rest)
            + 2 ^ (bl % 8) * 256 ^ rest.length * (b.toNat / 2 ^ (bl % 8)) := by
        conv_lhs => rw [← Nat.div_add_mod b.toNat (2 ^ (bl % 8))]
        ring
      rw [hdecomp, Nat.add_mul_mod_self_left, Nat.mod_eq_of_lt hlt]

/-- `2^bitlen` divides the number `256^⌈bitlen/8⌉` of raw blocks, so reduction modulo `2^bitlen` maps
    equally many raw blocks to every candidate value. -/
theorem two_pow_dvd_blocks (bl : Nat) : 2 ^ bl ∣ 256 ^ bitsLen bl := by
  have : (256 : Nat) ^ bitsLen bl = 2 ^ (8 * bitsLen bl) := by rw [pow_mul]; norm_num
  rw [this]
  exact pow_dvd_pow 2 (by unfold bitsLen; omega)

/-! ### Rejection sampling on candidate values -/

/-- First candidate below `q`, with its index. -/
def firstBelow (q : Nat) : List Nat → Option (Nat × Nat)
  | [] => none
  | c :: cs => if c < q then some (c, 0) else (firstBelow q cs).map (fun r => (r.1, r.2 + 1))

/-- The candidates `random.Int` forms from a stream prefix: masked big-endian blocks of `nb` bytes. -/
def cands (nb bl : Nat) (s : Bytes) : List Nat :=
  if nb = 0 ∨ s.length < nb then [] else
    decodeBE (maskBits bl (s.take nb)) :: cands nb bl (s.drop nb)
termination_by s.length
decreasing_by simp only [List.length_drop]; omega

/-- The sampler of `Groups/Scalar.lean` is "first candidate below `q`". -/
theorem pickAux_eq_firstBelow (q nb bl : Nat) (s : Bytes) (used : Nat) :
    pickAux q nb bl s used =
      (firstBelow q (cands nb bl s)).map (fun r => (r.1, used + (r.2 + 1) * nb)) := by
  fun_induction pickAux q nb bl s used with
  | case1 s used hc =>
    rw [cands, if_pos hc]; rfl
  | case2 s used hg cand hc =>
    rw [cands, if_neg hg]
    simp only [firstBelow]
    rw [if_pos hc]
    simp
    rfl
  | case3 s used hg cand hc ih =>
    rw [cands, if_neg hg]
    simp only [firstBelow]
    rw [if_neg hc, ih, Option.map_map]
    congr 1
    funext r
    simp only [Function.comp, Prod.mk.injEq, true_and]
    ring

/-- Relabelling candidate values by a map that respects "below `q`" relabels the result. -/
theorem firstBelow_map (q : Nat) (σ : Nat → Nat) (hσ : ∀ c, σ c < q ↔ c < q) (l : List Nat) :
    firstBelow q (l.map σ) = (firstBelow q l).map (fun r => (σ r.1, r.2)) := by
  induction l with
  | nil => rfl
  | cons c l ih =>
    simp only [List.map_cons, firstBelow, hσ c]
    split
    · rfl
    · rw [ih, Option.map_map, Option.map_map]; rfl

theorem swap_lt_iff (q v w : Nat) (hv : v < q) (hw : w < q) (c : Nat) :
    Equiv.swap v w c < q ↔ c < q := by
  rw [Equiv.swap_apply_def]
  split_ifs with h1 h2
  · subst h1; exact ⟨fun _ => hv, fun _ => hw⟩
  · subst h2; exact ⟨fun _ => hw, fun _ => hv⟩
  · rfl

theorem swap_fin_val (N v w : Nat) (hv : v < N) (hw : w < N) (x : Fin N) :
    (Equiv.swap (⟨v, hv⟩ : Fin N) ⟨w, hw⟩ x).val = Equiv.swap v w x.val := by
  simp only [Equiv.swap_apply_def, Fin.ext_iff]
  split_ifs <;> rfl

/-! ### randstream -/

theorem failed_readFull (r : Bytes) : failed (readFull r) = failed r := by
  simp only [failed, readFull, readerBytes, List.length_take]
  by_cases h : r.length < 32
  · have : min 32 r.length < 32 := by omega
    simp [h, this]
  · have : ¬ min 32 r.length < 32 := by omega
    simp [h, this]

theorem readFull_idem (r : Bytes) : readFull (readFull r) = readFull r := by
  simp [readFull, List.take_take]

theorem flatten_injective_of_lengths {α : Type} (l1 l2 : List (List α))
    (hlen : l1.map List.length = l2.map List.length) (h : l1.flatten = l2.flatten) : l1 = l2 := by
  induction l1 generalizing l2 with
  | nil =>
    cases l2 with
    | nil => rfl
    | cons b l2 => simp at hlen
  | cons a l1 ih =>
    cases l2 with
    | nil => simp at hlen
    | cons b l2 =>
      simp only [List.map_cons, List.cons.injEq] at hlen
      simp only [List.flatten_cons] at h
      obtain ⟨h1, h2⟩ := List.append_inj h hlen.1
      rw [h1, ih l2 hlen.2 h2]

end Kyber.Random
