import KyberModel.Proto.Vss
import Mathlib.Data.List.Nodup
import Mathlib.Data.List.Perm.Subperm
import Mathlib.Data.List.Range
import Mathlib.Tactic.Ring
/-
Helper lemmas for Props/C10.lean: the response map as an association list, invariants of the
aggregator operations.
-/
namespace Kyber.Vss

/-! ### association-list facts -/

theorem lookup_cons_eq (a : Nat) (c : Bool) (rs : List (Nat × Bool)) (i : Nat) :
    ((a, c) :: rs).lookup i = if i = a then some c else rs.lookup i := by
  by_cases h : i = a
  · subst h; simp [List.lookup]
  · have : (i == a) = false := by simpa using h
    simp [List.lookup, this, h]

theorem lookup_append_single (rs : List (Nat × Bool)) (k : Nat) (b : Bool) (i : Nat) :
    (rs ++ [(k, b)]).lookup i = match rs.lookup i with
      | some x => some x
      | none => if i = k then some b else none := by
  induction rs with
  | nil => simp [lookup_cons_eq]
  | cons p rs ih =>
    obtain ⟨a, c⟩ := p
    simp only [List.cons_append, lookup_cons_eq]
    by_cases h : i = a
    · simp [h]
    · simp [h, ih]

theorem lookup_setApproved (rs : List (Nat × Bool)) (idx i : Nat) :
    (setApproved rs idx).lookup i = if i = idx then (rs.lookup i).map (fun _ => true) else rs.lookup i := by
  induction rs with
  | nil => simp [setApproved]
  | cons p rs ih =>
    obtain ⟨a, c⟩ := p
    have hcons : setApproved ((a, c) :: rs) idx = (if a = idx then (a, true) else (a, c)) :: setApproved rs idx := by
      simp [setApproved]
    rw [hcons]
    by_cases ha : a = idx
    · simp only [ha, if_true, lookup_cons_eq, ih]
      by_cases hi : i = idx <;> simp [hi]
    · simp only [ha, if_false, lookup_cons_eq, ih]
      by_cases hi : i = idx
      · subst hi
        have : i ≠ a := fun h => ha h.symm
        simp [this]
      · simp [hi]

theorem keys_setApproved (rs : List (Nat × Bool)) (idx : Nat) :
    (setApproved rs idx).map Prod.fst = rs.map Prod.fst := by
  unfold setApproved
  rw [List.map_map]
  apply List.map_congr_left
  intro p _
  by_cases h : p.1 = idx <;> simp [h]

theorem lookup_isSome_iff_mem_keys (rs : List (Nat × Bool)) (i : Nat) :
    (rs.lookup i).isSome = true ↔ i ∈ rs.map Prod.fst := by
  induction rs with
  | nil => simp
  | cons p rs ih =>
    obtain ⟨a, c⟩ := p
    by_cases h : i = a
    · subst h; simp [lookup_cons_eq]
    · simp [lookup_cons_eq, ih, h]

theorem lookup_eq_none_iff_not_mem_keys (rs : List (Nat × Bool)) (i : Nat) :
    rs.lookup i = none ↔ i ∉ rs.map Prod.fst := by
  rw [← lookup_isSome_iff_mem_keys]; cases rs.lookup i <;> simp

theorem mem_of_lookup_eq_some {rs : List (Nat × Bool)} {i : Nat} {b : Bool} (h : rs.lookup i = some b) :
    (i, b) ∈ rs := by
  induction rs with
  | nil => simp at h
  | cons p rs ih =>
    obtain ⟨a, c⟩ := p
    rw [lookup_cons_eq] at h
    by_cases hi : i = a
    · subst hi; simp at h; simp [h]
    · simp [hi] at h
      exact List.mem_cons_of_mem _ (ih h)

theorem lookup_eq_some_of_mem {rs : List (Nat × Bool)} (hnd : (rs.map Prod.fst).Nodup) {i : Nat} {b : Bool}
    (h : (i, b) ∈ rs) : rs.lookup i = some b := by
  induction rs with
  | nil => simp at h
  | cons p rs ih =>
    obtain ⟨a, c⟩ := p
    simp only [List.map_cons, List.nodup_cons] at hnd
    rcases List.mem_cons.mp h with h' | h'
    · cases h'; simp [lookup_cons_eq]
    · have hne : i ≠ a := by
        rintro rfl; exact hnd.1 (List.mem_map.mpr ⟨(i, b), h', rfl⟩)
      simp [lookup_cons_eq, hne, ih hnd.2 h']

/-- Counting approved *entries* never exceeds counting approved *verifiers* when keys are distinct
    and in range: entries are distinct verifiers. -/
theorem approvedEntries_le_countApproved (a : Agg) (n : Nat)
    (hnd : (a.responses.map Prod.fst).Nodup) (hlt : ∀ p ∈ a.responses, p.1 < n) :
    (a.responses.filter (fun p => p.2)).length ≤ countApproved a n := by
  unfold countApproved
  have h1 : ((a.responses.filter (fun p => p.2)).map Prod.fst).Nodup :=
    (hnd.sublist ((List.filter_sublist).map _))
  have h2 : (a.responses.filter (fun p => p.2)).map Prod.fst ⊆
      (List.range n).filter (fun i => a.responses.lookup i == some true) := by
    intro i hi
    obtain ⟨p, hp, rfl⟩ := List.mem_map.mp hi
    obtain ⟨hp1, hp2⟩ := List.mem_filter.mp hp
    refine List.mem_filter.mpr ⟨List.mem_range.mpr (hlt p hp1), ?_⟩
    have : a.responses.lookup p.1 = some true := by
      apply lookup_eq_some_of_mem hnd
      obtain ⟨x, y⟩ := p; simp at hp2; subst hp2; exact hp1
    simp [this]
  have := (List.subperm_of_subset h1 h2).length_le
  simpa using this

/-- Conversely, every approved verifier in range is an approved entry. -/
theorem countApproved_le_approvedEntries (a : Agg) (n : Nat) :
    countApproved a n ≤ (a.responses.filter (fun p => p.2)).length := by
  unfold countApproved
  have h1 : ((List.range n).filter (fun i => a.responses.lookup i == some true)).Nodup :=
    (List.nodup_range).filter _
  have h2 : (List.range n).filter (fun i => a.responses.lookup i == some true) ⊆
      (a.responses.filter (fun p => p.2)).map Prod.fst := by
    intro i hi
    obtain ⟨_, hi2⟩ := List.mem_filter.mp hi
    have : a.responses.lookup i = some true := by simpa using hi2
    exact List.mem_map.mpr ⟨(i, true), List.mem_filter.mpr ⟨mem_of_lookup_eq_some this, rfl⟩, rfl⟩
  have := (List.subperm_of_subset h1 h2).length_le
  simpa using this

/-! ### invariants of the aggregator operations -/

/-- Keys of the response map are distinct verifier indices in range. -/
def Inv (cfg : Cfg) (a : Agg) : Prop :=
  (a.responses.map Prod.fst).Nodup ∧ ∀ p ∈ a.responses, p.1 < cfg.n

/-- `a'` extends `a`: the dealer stays bad, filled slots stay filled and can only move from
    complaint to approval, the key invariant is kept. -/
structure Ext (cfg : Cfg) (a a' : Agg) : Prop where
  bad : a.badDealer = true → a'.badDealer = true
  slot : ∀ i b, a.responses.lookup i = some b →
    a'.responses.lookup i = some b ∨ (b = false ∧ a'.responses.lookup i = some true)
  inv : Inv cfg a → Inv cfg a'

theorem Ext.refl (cfg : Cfg) (a : Agg) : Ext cfg a a := ⟨id, fun _ _ h => Or.inl h, id⟩

theorem Ext.trans {cfg : Cfg} {a b c : Agg} (h1 : Ext cfg a b) (h2 : Ext cfg b c) : Ext cfg a c := by
  refine ⟨fun h => h2.bad (h1.bad h), ?_, fun h => h2.inv (h1.inv h)⟩
  intro i x hx
  rcases h1.slot i x hx with h | ⟨rfl, h⟩
  · exact h2.slot i x h
  · rcases h2.slot i true h with h' | ⟨h', _⟩
    · exact Or.inr ⟨rfl, h'⟩
    · cases h'

/-- Extension that leaves every filled slot exactly as it was. -/
structure Same (cfg : Cfg) (a a' : Agg) : Prop where
  bad : a.badDealer = true → a'.badDealer = true
  slot : ∀ i b, a.responses.lookup i = some b → a'.responses.lookup i = some b
  inv : Inv cfg a → Inv cfg a'

theorem Same.ext {cfg : Cfg} {a a' : Agg} (h : Same cfg a a') : Ext cfg a a' :=
  ⟨h.bad, fun i b hb => Or.inl (h.slot i b hb), h.inv⟩

theorem Same.refl (cfg : Cfg) (a : Agg) : Same cfg a a := ⟨id, fun _ _ h => h, id⟩

theorem Same.trans {cfg : Cfg} {a b c : Agg} (h1 : Same cfg a b) (h2 : Same cfg b c) : Same cfg a c :=
  ⟨fun h => h2.bad (h1.bad h), fun i x hx => h2.slot i x (h1.slot i x hx), fun h => h2.inv (h1.inv h)⟩

/-- Changing only `t`, `sid`, `deal`, `timeout`, or setting `badDealer`, is a `Same` step. -/
theorem Same.of_responses_eq {cfg : Cfg} {a a' : Agg} (hr : a'.responses = a.responses)
    (hb : a.badDealer = true → a'.badDealer = true) : Same cfg a a' :=
  ⟨hb, fun i b h => by rw [hr]; exact h, fun h => by unfold Inv at *; rw [hr]; exact h⟩

@[simp] theorem adopt_responses (cfg : Cfg) (a : Agg) (d : Deal) : (adopt cfg a d).responses = a.responses := by
  unfold adopt; cases a.deal <;> rfl

@[simp] theorem adopt_badDealer (cfg : Cfg) (a : Agg) (d : Deal) : (adopt cfg a d).badDealer = a.badDealer := by
  unfold adopt; cases a.deal <;> rfl

@[simp] theorem adopt_timeout (cfg : Cfg) (a : Agg) (d : Deal) : (adopt cfg a d).timeout = a.timeout := by
  unfold adopt; cases a.deal <;> rfl

@[simp] theorem verifyDeal_responses (cfg : Cfg) (a : Agg) (d : Deal) (incl : Bool) :
    (verifyDeal cfg a d incl).1.responses = a.responses := by
  unfold verifyDeal; split <;> simp

@[simp] theorem verifyDeal_badDealer (cfg : Cfg) (a : Agg) (d : Deal) (incl : Bool) :
    (verifyDeal cfg a d incl).1.badDealer = a.badDealer := by
  unfold verifyDeal; split <;> simp

theorem verifyDeal_same (cfg : Cfg) (a : Agg) (d : Deal) (incl : Bool) : Same cfg a (verifyDeal cfg a d incl).1 :=
  Same.of_responses_eq (by simp) (by simp)

theorem addResponse_ok {cfg : Cfg} {a a' : Agg} {idx : Nat} {b : Bool} (h : addResponse cfg a idx b = .ok a') :
    idx < cfg.n ∧ a.responses.lookup idx = none ∧ a' = { a with responses := a.responses ++ [(idx, b)] } := by
  unfold addResponse at h
  split at h
  · cases h
  · split at h
    · cases h
    · rename_i h1 h2
      refine ⟨by simpa using h1, ?_, by cases h; rfl⟩
      cases hl : a.responses.lookup idx <;> simp [hl] at h2 ⊢

theorem inv_append {cfg : Cfg} {a : Agg} {idx : Nat} (b : Bool) (hi : idx < cfg.n)
    (hn : a.responses.lookup idx = none) (h : Inv cfg a) :
    Inv cfg { a with responses := a.responses ++ [(idx, b)] } := by
  obtain ⟨h1, h2⟩ := h
  refine ⟨?_, ?_⟩
  · simp only [List.map_append, List.map_cons, List.map_nil]
    rw [List.nodup_append]
    refine ⟨h1, List.nodup_singleton _, ?_⟩
    intro x hx y hy
    simp only [List.mem_singleton] at hy
    subst hy
    rintro rfl
    exact (lookup_eq_none_iff_not_mem_keys _ _).mp hn hx
  · intro p hp
    rcases List.mem_append.mp hp with hp | hp
    · exact h2 p hp
    · simp only [List.mem_singleton] at hp; subst hp; exact hi

theorem same_append {cfg : Cfg} {a : Agg} {idx : Nat} (b : Bool) (hi : idx < cfg.n)
    (hn : a.responses.lookup idx = none) :
    Same cfg a { a with responses := a.responses ++ [(idx, b)] } := by
  refine ⟨id, ?_, inv_append b hi hn⟩
  intro i x hx
  simp only [lookup_append_single, hx]

theorem addResponse_same {cfg : Cfg} {a a' : Agg} {idx : Nat} {b : Bool} (h : addResponse cfg a idx b = .ok a') :
    Same cfg a a' := by
  obtain ⟨h1, h2, rfl⟩ := addResponse_ok h
  exact same_append b h1 h2

theorem verifyResponse_ok {cfg : Cfg} {a a' : Agg} {sid idx : Nat} {ap sg : Bool}
    (h : verifyResponse cfg a sid idx ap sg = .ok a') :
    sg = true ∧ respSidOk cfg a sid = true ∧ addResponse cfg a idx ap = .ok a' := by
  unfold verifyResponse at h
  split at h
  · cases h
  · split at h
    · cases h
    · split at h
      · cases h
      · rename_i h1 _ h3
        exact ⟨by simpa using h3, by simpa using h1, h⟩

theorem verifyResponse_same {cfg : Cfg} {a a' : Agg} {sid idx : Nat} {ap sg : Bool}
    (h : verifyResponse cfg a sid idx ap sg = .ok a') : Same cfg a a' :=
  addResponse_same (verifyResponse_ok h).2.2

theorem cleanVerifiers_same (cfg : Cfg) (a : Agg) (k : Nat) (hk : k ≤ cfg.n) : Same cfg a (cleanVerifiers a k) := by
  induction k with
  | zero => exact Same.refl cfg a
  | succ k ih =>
    have ih := ih (by omega)
    unfold cleanVerifiers
    simp only
    split
    · exact ih
    · rename_i h
      refine ih.trans (same_append false (by omega) ?_)
      cases hl : (cleanVerifiers a k).responses.lookup k <;> simp [hl] at h ⊢

/-- After `cleanVerifiers a k` every index below `k` has a slot. -/
theorem cleanVerifiers_filled (a : Agg) (k : Nat) : ∀ i < k, ((cleanVerifiers a k).responses.lookup i).isSome = true := by
  induction k with
  | zero => intro i hi; omega
  | succ k ih =>
    intro i hi
    unfold cleanVerifiers
    simp only
    split
    · rename_i h
      by_cases hik : i = k
      · subst hik; exact h
      · exact ih i (by omega)
    · by_cases hik : i = k
      · subst hik
        simp only [lookup_append_single]
        cases (cleanVerifiers a i).responses.lookup i <;> simp
      · have := ih i (by omega)
        simp only [lookup_append_single]
        cases hl : (cleanVerifiers a k).responses.lookup i <;> simp [hl] at this ⊢

theorem inv_setApproved {cfg : Cfg} {a : Agg} (idx : Nat) (h : Inv cfg a) :
    Inv cfg { a with responses := setApproved a.responses idx } := by
  obtain ⟨h1, h2⟩ := h
  refine ⟨by simpa [keys_setApproved] using h1, ?_⟩
  intro p hp
  have : p.1 ∈ (setApproved a.responses idx).map Prod.fst := List.mem_map.mpr ⟨p, hp, rfl⟩
  rw [keys_setApproved] at this
  obtain ⟨p', hp', he⟩ := List.mem_map.mp this
  rw [← he]; exact h2 p' hp'

theorem ext_setApproved (cfg : Cfg) (a : Agg) (idx : Nat) :
    Ext cfg a { a with responses := setApproved a.responses idx } := by
  refine ⟨id, ?_, inv_setApproved idx⟩
  intro i b hb
  simp only [lookup_setApproved, hb]
  by_cases hi : i = idx
  · cases b <;> simp [hi]
  · simp [hi]

theorem same_setTimeout (cfg : Cfg) (a : Agg) : Same cfg a { a with timeout := true } :=
  Same.of_responses_eq rfl id

theorem same_setT (cfg : Cfg) (a : Agg) (t : Nat) : Same cfg a { a with t := t } :=
  Same.of_responses_eq rfl id

theorem same_setBad (cfg : Cfg) (a : Agg) : Same cfg a { a with badDealer := true } :=
  Same.of_responses_eq rfl (fun _ => rfl)

theorem verifyJustification_ext (cfg : Cfg) (a : Agg) (idx : Nat) (sg : Bool) (d : Deal) :
    Ext cfg a (verifyJustification cfg a idx sg d).1 := by
  unfold verifyJustification
  split
  · exact Ext.refl _ _
  · split
    · exact Ext.refl _ _
    · exact Ext.refl _ _
    · split
      · exact (same_setBad cfg a).ext
      · split
        · rename_i a' e heq
          have hs := verifyDeal_same cfg a d false
          rw [heq] at hs
          exact (hs.trans (same_setBad cfg a')).ext
        · rename_i a' heq
          have hs := verifyDeal_same cfg a d false
          rw [heq] at hs
          split
          · exact hs.ext
          · exact hs.ext.trans (ext_setApproved cfg a' idx)

/-! ### the wrappers -/

theorem inv_empty (cfg : Cfg) (a : Agg) (h : a.responses = []) : Inv cfg a := by
  unfold Inv; rw [h]; simp

theorem processDealOn_same (cfg : Cfg) (me : Nat) (a : Agg) (d : Deal) :
    Same cfg a (processDealOn cfg me a d).1 := by
  unfold processDealOn
  have hs := verifyDeal_same cfg a d true
  split
  · rename_i a' heq
    rw [heq] at hs
    exact hs
  · rename_i a' e _ heq
    rw [heq] at hs
    split
    · exact hs
    · rename_i a'' hadd
      exact hs.trans (addResponse_same hadd)

/-- `processDeal` on an existing aggregator. -/
theorem processDeal_some (cfg : Cfg) (me : Nat) (a : Agg) (d : Deal) :
    ∃ a', (processDeal cfg me (some a) d).1 = some a' ∧ Same cfg a a' := by
  unfold processDeal
  split
  · exact ⟨a, rfl, Same.refl _ _⟩
  · exact ⟨_, rfl, processDealOn_same cfg me a d⟩

/-- `processDeal` on a nil aggregator (R): stays nil or becomes a well-formed aggregator. -/
theorem processDeal_none (cfg : Cfg) (me : Nat) (d : Deal) :
    (processDeal cfg me none d).1 = none ∨ ∃ a', (processDeal cfg me none d).1 = some a' ∧ Inv cfg a' := by
  unfold processDeal
  split
  · exact Or.inl rfl
  · exact Or.inr ⟨_, rfl, (processDealOn_same cfg me (aggOfDeal d) d).inv (inv_empty _ _ rfl)⟩

theorem step_role (cfg : Cfg) (nd : Node) (op : Op) : (step cfg nd op).1.role = nd.role := by
  unfold step
  split <;> (try rfl) <;> (repeat' split) <;> rfl

theorem step_some (cfg : Cfg) (nd : Node) (op : Op) (a : Agg) (h : nd.agg = some a) :
    ∃ a', (step cfg nd op).1.agg = some a' ∧ Ext cfg a a' := by
  obtain ⟨role, agg⟩ := nd
  simp only at h
  subst h
  cases op with
  | encDeal sg op d =>
    cases role with
    | verifier me =>
      simp only [step]
      split
      · exact ⟨a, rfl, Ext.refl _ _⟩
      · split
        · exact ⟨a, rfl, Ext.refl _ _⟩
        · obtain ⟨a', h1, h2⟩ := processDeal_some cfg me a d
          exact ⟨a', by simpa using h1, h2.ext⟩
    | dealer => exact ⟨a, rfl, Ext.refl _ _⟩
  | response sid idx ap sg =>
    cases role with
    | verifier me =>
      simp only [step]
      split
      · exact ⟨a, rfl, Ext.refl _ _⟩
      · split
        · exact ⟨a, rfl, Ext.refl _ _⟩
        · rename_i a' hv
          exact ⟨a', rfl, (verifyResponse_same hv).ext⟩
    | dealer =>
      simp only [step]
      split
      · exact ⟨a, rfl, Ext.refl _ _⟩
      · rename_i a' hv
        exact ⟨a', rfl, (verifyResponse_same hv).ext⟩
  | justification idx sg d =>
    cases role with
    | verifier me =>
      simp only [step]
      have he := verifyJustification_ext cfg a idx sg d
      split
      · rename_i a' heq; rw [heq] at he; exact ⟨a', rfl, he⟩
      · rename_i a' e heq; rw [heq] at he; exact ⟨a', rfl, he⟩
    | dealer => exact ⟨a, rfl, Ext.refl _ _⟩
  | setTimeout =>
    simp only [step]
    split
    · exact ⟨_, rfl, (same_setTimeout cfg a).ext⟩
    · exact ⟨_, rfl, (cleanVerifiers_same cfg a cfg.n le_rfl).ext⟩
  | unsafeSet idx ap =>
    simp only [step]
    split
    · exact ⟨a, rfl, Ext.refl _ _⟩
    · split
      · exact ⟨a, rfl, Ext.refl _ _⟩
      · rename_i a' hadd
        exact ⟨a', rfl, (addResponse_same hadd).ext⟩
  | setThreshold t =>
    simp only [step]
    split
    · exact ⟨_, rfl, (same_setT cfg a t).ext⟩
    · exact ⟨a, rfl, Ext.refl _ _⟩
  | verifyDeal d incl =>
    simp only [step]
    have hs := verifyDeal_same cfg a d incl
    split
    · rename_i a' heq; rw [heq] at hs; exact ⟨a', rfl, hs.ext⟩
    · rename_i a' e heq; rw [heq] at hs; exact ⟨a', rfl, hs.ext⟩

theorem step_none (cfg : Cfg) (nd : Node) (op : Op) (h : nd.agg = none) :
    (step cfg nd op).1.agg = none ∨ ∃ a', (step cfg nd op).1.agg = some a' ∧ Inv cfg a' := by
  obtain ⟨role, agg⟩ := nd
  simp only at h
  subst h
  cases op with
  | encDeal sg op d =>
    cases role with
    | verifier me =>
      simp only [step]
      split
      · exact Or.inl rfl
      · split
        · exact Or.inl rfl
        · simpa using processDeal_none cfg me d
    | dealer => exact Or.inl rfl
  | response sid idx ap sg => cases role <;> exact Or.inl rfl
  | justification idx sg d => cases role <;> exact Or.inl rfl
  | setTimeout => exact Or.inl rfl
  | unsafeSet idx ap => exact Or.inl rfl
  | setThreshold t => exact Or.inl rfl
  | verifyDeal d incl => exact Or.inl rfl

/-! ### where an approved slot comes from -/

/-- The op/outcome pair fills the empty slot `i` with an approval: the verifier's own approval of its
    deal, an accepted (signature-checked) approving response of verifier `i`, or the DKG bypass. -/
def AddsApproval (role : Role) (i : Nat) : Op → Out → Prop
  | .encDeal _ _ _, .approve => role = .verifier i
  | .response _ idx true sg, .ok => idx = i ∧ sg = true
  | .unsafeSet idx true, .ok => idx = i
  | _, _ => False

/-- The op/outcome pair is an accepted justification for index `i`. -/
def Justifies (i : Nat) : Op → Out → Prop
  | .justification idx _ _, .ok => idx = i
  | _, _ => False

theorem addResponse_lookup_true {cfg : Cfg} {a a' : Agg} {idx : Nat} {b : Bool}
    (h : addResponse cfg a idx b = .ok a') (i : Nat) (hi : a'.responses.lookup i = some true) :
    a.responses.lookup i = some true ∨ (a.responses.lookup i = none ∧ i = idx ∧ b = true) := by
  obtain ⟨_, _, rfl⟩ := addResponse_ok h
  simp only [lookup_append_single] at hi
  cases hl : a.responses.lookup i with
  | some x => rw [hl] at hi; simp at hi; left; rw [hi]
  | none =>
    rw [hl] at hi
    by_cases hik : i = idx
    · simp [hik] at hi; exact Or.inr ⟨rfl, hik, hi⟩
    · simp [hik] at hi

theorem cleanVerifiers_lookup_true (a : Agg) (k i : Nat)
    (h : (cleanVerifiers a k).responses.lookup i = some true) : a.responses.lookup i = some true := by
  induction k with
  | zero => exact h
  | succ k ih =>
    unfold cleanVerifiers at h
    simp only at h
    split at h
    · exact ih h
    · simp only [lookup_append_single] at h
      cases hl : (cleanVerifiers a k).responses.lookup i with
      | some x => rw [hl] at h; simp at h; subst h; exact ih hl
      | none => rw [hl] at h; by_cases hik : i = k <;> simp [hik] at h

theorem verifyJustification_lookup_true (cfg : Cfg) (a : Agg) (idx : Nat) (sg : Bool) (d : Deal) (i : Nat)
    (hi : (verifyJustification cfg a idx sg d).1.responses.lookup i = some true) :
    a.responses.lookup i = some true ∨
      (a.responses.lookup i = some false ∧ i = idx ∧ (verifyJustification cfg a idx sg d).2 = none) := by
  unfold verifyJustification at hi ⊢
  split
  · rename_i h; simp only [h, if_true] at hi; exact Or.inl hi
  · rename_i h
    simp only [h, if_false] at hi
    split
    · rename_i hl; simp only [hl] at hi; exact Or.inl hi
    · rename_i hl; simp only [hl] at hi; exact Or.inl hi
    · rename_i hl
      simp only [hl] at hi
      split
      · rename_i h2; simp only [h2, if_true] at hi; exact Or.inl hi
      · rename_i h2
        simp only [h2, if_false] at hi
        split
        · rename_i a' e heq
          rw [heq] at hi
          have := verifyDeal_responses cfg a d false
          rw [heq] at this
          simp only at hi this
          rw [this] at hi; exact Or.inl hi
        · rename_i a' heq
          rw [heq] at hi
          have := verifyDeal_responses cfg a d false
          rw [heq] at this
          simp only at hi this
          split
          · rename_i h3
            simp only [h3, if_true, Bool.false_eq_true, if_false] at hi
            rw [this] at hi; exact Or.inl hi
          · rename_i h3
            simp only [h3, if_false, Bool.false_eq_true] at hi
            rw [lookup_setApproved, this] at hi
            by_cases hii : i = idx
            · subst hii
              exact Or.inr ⟨hl, rfl, rfl⟩
            · simp only [hii, if_false] at hi; exact Or.inl hi

theorem processDealOn_lookup_true (cfg : Cfg) (me : Nat) (a : Agg) (d : Deal) (i : Nat)
    (hi : (processDealOn cfg me a d).1.responses.lookup i = some true) :
    a.responses.lookup i = some true ∨
      (a.responses.lookup i = none ∧ i = me ∧ (processDealOn cfg me a d).2 = .approve) := by
  unfold processDealOn at hi ⊢
  have hres := verifyDeal_responses cfg a d true
  split
  · rename_i a1 heq
    rw [heq] at hi hres
    simp only at hi hres
    rw [hres] at hi
    exact Or.inl hi
  · rename_i a1 e hne heq
    rw [heq] at hi hres
    simp only at hi hres
    split
    · rename_i r hadd
      rw [hadd] at hi
      simp only at hi
      rw [hres] at hi
      exact Or.inl hi
    · rename_i a2 hadd
      rw [hadd] at hi
      simp only at hi
      rcases addResponse_lookup_true hadd i hi with h1 | ⟨h1, h2, h3⟩
      · rw [hres] at h1; exact Or.inl h1
      · rw [hres] at h1
        refine Or.inr ⟨h1, h2, ?_⟩
        simp [h3]

/-- **Origin of an approved slot, one step.** If slot `i` is approved after an operation then it was
    approved before, or it was empty and the operation is an approval of verifier `i` (own deal
    approved / accepted signed approving response / bypass), or it held a complaint and the operation
    is an accepted justification for index `i`. -/
theorem step_slot_true (cfg : Cfg) (nd : Node) (op : Op) (a' : Agg)
    (h' : (step cfg nd op).1.agg = some a') (i : Nat) (hi : a'.responses.lookup i = some true) :
    (∃ a, nd.agg = some a ∧ a.responses.lookup i = some true) ∨
    ((∀ a, nd.agg = some a → a.responses.lookup i = none) ∧ AddsApproval nd.role i op (step cfg nd op).2) ∨
    (∃ a, nd.agg = some a ∧ a.responses.lookup i = some false ∧ Justifies i op (step cfg nd op).2) := by
  obtain ⟨role, agg⟩ := nd
  have keep : ∀ a, agg = some a → a' = a → ∃ a, agg = some a ∧ a.responses.lookup i = some true := by
    intro a ha he; subst he; exact ⟨a', ha, hi⟩
  cases op with
  | encDeal sg opn d =>
    cases role with
    | verifier me =>
      simp only [step] at h' ⊢
      split at h'
      · rename_i hsg; simp only [hsg, if_true]; simp only at h'; exact Or.inl (keep a' h' rfl)
      · rename_i hsg
        simp only [hsg, if_false, Bool.false_eq_true]
        split at h'
        · rename_i hop; simp only [hop, if_true]; simp only at h'; exact Or.inl (keep a' h' rfl)
        · rename_i hop
          simp only [hop, if_false, Bool.false_eq_true]
          simp only at h'
          unfold processDeal at h' ⊢
          split at h'
          · rename_i hidx; simp only [hidx, if_true]; simp only at h'; exact Or.inl (keep a' h' rfl)
          · rename_i hidx
            simp only [hidx, if_false, Bool.false_eq_true]
            simp only [Option.some.injEq] at h'
            subst h'
            rcases processDealOn_lookup_true cfg me (baseAgg agg d) d i hi with h1 | ⟨h1, h2, h3⟩
            · cases agg with
              | none => simp [baseAgg, aggOfDeal] at h1
              | some a => exact Or.inl ⟨a, rfl, h1⟩
            · refine Or.inr (Or.inl ⟨?_, ?_⟩)
              · intro a ha; subst ha; exact h1
              · simp only [h3, AddsApproval, h2]
    | dealer => simp only [step] at h'; exact Or.inl (keep a' h' rfl)
  | response sid idx ap sg =>
    cases agg with
    | none => cases role <;> simp [step] at h'
    | some a =>
      have core : ∀ a1, verifyResponse cfg a sid idx ap sg = .ok a1 → a' = a1 →
          a.responses.lookup i = some true ∨ (a.responses.lookup i = none ∧ i = idx ∧ ap = true ∧ sg = true) := by
        intro a1 hv he; subst he
        obtain ⟨hs, _, hadd⟩ := verifyResponse_ok hv
        rcases addResponse_lookup_true hadd i hi with h1 | ⟨h1, h2, h3⟩
        · exact Or.inl h1
        · exact Or.inr ⟨h1, h2, h3, hs⟩
      cases role with
      | verifier me =>
        simp only [step] at h' ⊢
        split at h'
        · simp only at h'; exact Or.inl (keep a' h' rfl)
        · rename_i hnd
          simp only [hnd, if_false, Bool.false_eq_true]
          split at h'
          · simp only at h'; exact Or.inl (keep a' h' rfl)
          · rename_i a1 hv
            simp only [Option.some.injEq] at h'
            rcases core a1 hv h'.symm with h1 | ⟨h1, h2, h3, h4⟩
            · exact Or.inl ⟨a, rfl, h1⟩
            · refine Or.inr (Or.inl ⟨?_, ?_⟩)
              · intro x hx; simp only [Option.some.injEq] at hx; subst hx; exact h1
              · simp only [hv, h3, AddsApproval, h2, h4, and_self]
      | dealer =>
        simp only [step] at h' ⊢
        split at h'
        · simp only at h'; exact Or.inl (keep a' h' rfl)
        · rename_i a1 hv
          simp only [Option.some.injEq] at h'
          rcases core a1 hv h'.symm with h1 | ⟨h1, h2, h3, h4⟩
          · exact Or.inl ⟨a, rfl, h1⟩
          · refine Or.inr (Or.inl ⟨?_, ?_⟩)
            · intro x hx; simp only [Option.some.injEq] at hx; subst hx; exact h1
            · simp only [hv, h3, AddsApproval, h2, h4, and_self, if_true]
  | justification idx sg d =>
    cases agg with
    | none => cases role <;> simp [step] at h'
    | some a =>
      cases role with
      | verifier me =>
        simp only [step] at h' ⊢
        have hl := verifyJustification_lookup_true cfg a idx sg d i
        split at h'
        · rename_i a1 heq
          simp only [Option.some.injEq] at h'
          subst h'
          rw [heq] at hl
          rcases hl hi with h1 | ⟨h1, h2, _⟩
          · exact Or.inl ⟨a, rfl, h1⟩
          · exact Or.inr (Or.inr ⟨a, rfl, h1, by simp only [heq, Justifies, h2]⟩)
        · rename_i a1 e heq
          simp only [Option.some.injEq] at h'
          subst h'
          rw [heq] at hl
          rcases hl hi with h1 | ⟨_, _, h3⟩
          · exact Or.inl ⟨a, rfl, h1⟩
          · cases h3
      | dealer => simp only [step] at h'; exact Or.inl (keep a' h' rfl)
  | setTimeout =>
    cases agg with
    | none => simp [step] at h'
    | some a =>
      simp only [step] at h'
      split at h'
      · simp only [Option.some.injEq] at h'; subst h'; exact Or.inl ⟨a, rfl, hi⟩
      · simp only [Option.some.injEq] at h'; subst h'
        exact Or.inl ⟨a, rfl, cleanVerifiers_lookup_true a cfg.n i hi⟩
  | unsafeSet idx ap =>
    cases agg with
    | none => simp [step] at h'
    | some a =>
      simp only [step] at h' ⊢
      split at h'
      · simp only at h'; exact Or.inl (keep a' h' rfl)
      · rename_i hnd
        simp only [hnd, if_false, Bool.false_eq_true]
        split at h'
        · simp only at h'; exact Or.inl (keep a' h' rfl)
        · rename_i a1 hadd
          simp only [Option.some.injEq] at h'
          subst h'
          rcases addResponse_lookup_true hadd i hi with h1 | ⟨h1, h2, h3⟩
          · exact Or.inl ⟨a, rfl, h1⟩
          · refine Or.inr (Or.inl ⟨?_, ?_⟩)
            · intro x hx; simp only [Option.some.injEq] at hx; subst hx; exact h1
            · simp only [hadd, h3, AddsApproval, h2]
  | setThreshold t =>
    cases agg with
    | none => simp [step] at h'
    | some a =>
      simp only [step] at h'
      split at h'
      · simp only [Option.some.injEq] at h'; subst h'; exact Or.inl ⟨a, rfl, hi⟩
      · simp only at h'; exact Or.inl (keep a' h' rfl)
  | verifyDeal d incl =>
    cases agg with
    | none => simp [step] at h'
    | some a =>
      simp only [step] at h'
      have hr := verifyDeal_responses cfg a d incl
      split at h'
      · rename_i a1 heq
        simp only [Option.some.injEq] at h'; subst h'
        rw [heq] at hr; simp only at hr; rw [hr] at hi
        exact Or.inl ⟨a, rfl, hi⟩
      · rename_i a1 e heq
        simp only [Option.some.injEq] at h'; subst h'
        rw [heq] at hr; simp only at hr; rw [hr] at hi
        exact Or.inl ⟨a, rfl, hi⟩

/-! ### the decision lists, characterised -/

theorem checkDeal_eq_none_iff (cfg : Cfg) (a : Agg) (d : Deal) :
    checkDeal cfg a d = none ↔
      validT d.t cfg.n = true ∧ (cfg.variant = .pedersen → d.t = a.t) ∧ a.sid = some d.sid ∧
      (cfg.variant = .rabin → d.i = d.ri) ∧ d.i < cfg.n ∧ shareOk cfg d = true := by
  unfold checkDeal
  cases hv : cfg.variant <;> cases hT : validT d.t cfg.n <;> cases hs : shareOk cfg d <;>
    by_cases h1 : d.t = a.t <;> by_cases h2 : a.sid = some d.sid <;> by_cases h3 : d.i = d.ri <;>
    by_cases h4 : cfg.n ≤ d.i <;> simp [h1, h2, h3, h4] <;> first | omega | (split <;> simp_all)

theorem verifyDeal_snd_eq_none_iff (cfg : Cfg) (a : Agg) (d : Deal) :
    (verifyDeal cfg a d true).2 = none ↔ a.deal = none ∧ checkDeal cfg (adopt cfg a d) d = none := by
  unfold verifyDeal
  cases hd : a.deal <;> simp

theorem verifyDeal_snd_ne_already (cfg : Cfg) (a : Agg) (d : Deal) (hd : a.deal = none) :
    (verifyDeal cfg a d true).2 ≠ some .already := by
  unfold verifyDeal
  simp only [hd, Option.isSome_none, Bool.false_and, Bool.false_eq_true, if_false]
  unfold checkDeal
  repeat' split
  all_goals simp

theorem addResponse_isOk_iff (cfg : Cfg) (a : Agg) (idx : Nat) (b : Bool) :
    (∃ a', addResponse cfg a idx b = .ok a') ↔ idx < cfg.n ∧ a.responses.lookup idx = none := by
  constructor
  · rintro ⟨a', h⟩; obtain ⟨h1, h2, _⟩ := addResponse_ok h; exact ⟨h1, h2⟩
  · rintro ⟨h1, h2⟩
    unfold addResponse
    have : ¬ cfg.n ≤ idx := by omega
    simp [this, h2]

/-- `ProcessEncryptedDeal` answers with an approval exactly when it is the first deal, every check of
    `VerifyDeal` passes, the verifier's own slot is free and in range, and (repaired code) the announced
    session identifier is the one the deal's content yields. -/
theorem processDealOn_approve_iff (cfg : Cfg) (me : Nat) (a : Agg) (d : Deal) :
    (processDealOn cfg me a d).2 = .approve ↔
      a.deal = none ∧ checkDeal cfg (adopt cfg a d) d = none ∧ me < cfg.n ∧ a.responses.lookup me = none ∧
        sidBound cfg d = true := by
  unfold processDealOn
  have hres := verifyDeal_responses cfg a d true
  have hiff := verifyDeal_snd_eq_none_iff cfg a d
  split
  · rename_i a1 heq
    rw [heq] at hiff
    simp only at hiff
    constructor
    · intro h; cases h
    · rintro ⟨h1, h2, _⟩
      have := hiff.mpr ⟨h1, h2⟩
      cases this
  · rename_i a1 e hne heq
    rw [heq] at hiff hres
    simp only at hiff hres
    split
    · rename_i r hadd
      constructor
      · intro h; cases h
      · rintro ⟨h1, h2, h3, h4, _⟩
        have := (addResponse_isOk_iff cfg a1 me (e.isNone && sidBound cfg d)).mpr ⟨h3, by rw [hres]; exact h4⟩
        obtain ⟨a', ha'⟩ := this
        rw [ha'] at hadd; cases hadd
    · rename_i a2 hadd
      obtain ⟨h3, h4, _⟩ := addResponse_ok hadd
      rw [hres] at h4
      cases e with
      | none =>
        obtain ⟨h1, h2⟩ := hiff.mp rfl
        by_cases hb : sidBound cfg d = true
        · simp only [Option.isNone_none, hb, Bool.and_self, if_true, true_iff]
          exact ⟨h1, h2, h3, h4, trivial⟩
        · have hb' : sidBound cfg d = false := by simpa using hb
          simp only [Option.isNone_none, hb', Bool.and_false, Bool.false_eq_true, if_false]
          constructor
          · intro h; cases h
          · rintro ⟨_, _, _, _, h5⟩; cases h5
      | some e =>
        simp only [Option.isNone_some, Bool.false_and, Bool.false_eq_true, if_false]
        constructor
        · intro h; cases h
        · rintro ⟨h1, h2, _⟩
          have := hiff.mpr ⟨h1, h2⟩
          cases this

end Kyber.Vss
