import KyberModel.Lib.SigEd
import KyberModel.Lib.Ed25519
import KyberModel.Lib.DecodeValid
import KyberModel.Props.C04
/-
Discharges the hypothesis bundle `SigEd.EdLaws` of the EdDSA theorems (C08): the executable Ed25519
model, mapped into the twisted Edwards group over `ZMod p` proved in `Lib/EdwardsGroup.lean`, satisfies
all of it — homomorphism, injectivity, closure of validity, `dec ∘ enc = id` on valid points,
`L • B = O`, `B ≠ O`. No hypothesis about the curve remains in the concrete corollaries below except
the ones a theorem states itself.
-/
namespace Kyber.SigEdInst
open Kyber Kyber.Ed25519 Kyber.Edwards Kyber.EdLaw

theorem valid_iff (P : Pt) : SigEd.Valid P ↔ Ed25519.Valid P := by
  unfold SigEd.Valid Ed25519.Valid
  rw [onCurve_iff]

open Classical in
/-- Model points into the proved group: valid points by `toG`, everything else to 0. -/
noncomputable def φ (P : Pt) : G := if h : Ed25519.Valid P then toG P h else 0

theorem φ_valid {P : Pt} (h : Ed25519.Valid P) : φ P = toG P h := by
  unfold φ; rw [dif_pos h]

noncomputable def edLaws : SigEd.EdLaws G where
  φ := φ
  valid_base := (valid_iff _).mpr valid_base
  valid_zero := (valid_iff _).mpr valid_zero
  valid_add := fun P Q hP hQ => (valid_iff _).mpr (valid_add ((valid_iff _).mp hP) ((valid_iff _).mp hQ))
  valid_neg := fun P hP => (valid_iff _).mpr (valid_neg ((valid_iff _).mp hP))
  valid_smul := fun k P hP => (valid_iff _).mpr (valid_smul ((valid_iff _).mp hP) k)
  valid_dec := fun bs P h => by
    obtain ⟨h1, h2, h3⟩ := Kyber.C04.Ed25519.dec_valid bs P h
    exact ⟨h2, h3, h1⟩
  φ_add := fun P Q hP hQ => by
    have hP' := (valid_iff _).mp hP
    have hQ' := (valid_iff _).mp hQ
    rw [φ_valid (valid_add hP' hQ'), φ_valid hP', φ_valid hQ']
    exact toG_add hP' hQ'
  φ_neg := fun P hP => by
    have hP' := (valid_iff _).mp hP
    rw [φ_valid (valid_neg hP'), φ_valid hP']
    exact toG_neg hP'
  φ_smul := fun k P hP => by
    have hP' := (valid_iff _).mp hP
    rw [φ_valid (valid_smul hP' k), φ_valid hP']
    exact toG_smul hP' k
  φ_zero := by rw [φ_valid valid_zero]; exact toG_zero
  φ_inj := fun P Q hP hQ h => by
    have hP' := (valid_iff _).mp hP
    have hQ' := (valid_iff _).mp hQ
    rw [φ_valid hP', φ_valid hQ'] at h
    exact toG_injective hP' hQ' h
  dec_enc := fun P hP => dec_enc_of_valid P ((valid_iff _).mp hP)
  L_base := by rw [φ_valid valid_base]; exact L_smul_B
  base_ne := by rw [φ_valid valid_base]; exact B_ne_zero

end Kyber.SigEdInst
