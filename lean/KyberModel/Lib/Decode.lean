import KyberModel.Groups.Decode
import KyberModel.Lib.Bytes
import KyberModel.Lib.PowMod
import KyberModel.Lib.ModCast
import Mathlib.Data.ZMod.Basic
import Mathlib.Tactic.LinearCombination
/-
Helper lemmas for `Props/C04.lean` (decoders of untrusted bytes).
-/
namespace Kyber.DecodeLib

theorem take_append_of_length {α} (a b : List α) (n : Nat) (h : a.length = n) : (a ++ b).take n = a := by
  subst h; simp
theorem drop_append_of_length {α} (a b : List α) (n : Nat) (h : a.length = n) : (a ++ b).drop n = b := by
  subst h; simp

theorem mod_eq_iff_cast (m a b : Nat) : a % m = b % m ↔ ((a : ZMod m) = (b : ZMod m)) :=
  (ZMod.natCast_eq_natCast_iff' a b m).symm

theorem encodeLE_succ_snoc (w n : Nat) :
    encodeLE (w + 1) n = encodeLE w n ++ [UInt8.ofNat (n / 256 ^ w % 256)] := by
  induction w generalizing n with
  | zero => simp [encodeLE]
  | succ w ih =>
    rw [encodeLE, ih (n / 256)]
    simp only [encodeLE, List.cons_append, Nat.div_div_eq_div_mul, pow_succ]
    rw [Nat.mul_comm 256 (256 ^ w)]

/-- The first byte of a big-endian encoding is the top digit. -/
theorem encodeBE_succ (w n : Nat) :
    encodeBE (w + 1) n = UInt8.ofNat (n / 256 ^ w % 256) :: encodeBE w n := by
  simp [encodeBE, encodeLE_succ_snoc]

/-- Setting the ZCash flag bits on a top byte `< 32`. -/
theorem or_flag (n : Nat) (hn : n < 32) :
    (UInt8.ofNat n ||| 0xa0).toNat = n + 160 ∧ (UInt8.ofNat n ||| 0x80).toNat = n + 128 := by
  revert n; decide

theorem bitLen_bound (P : Nat) : P < 256 ^ ((Scalar.bitLen P + 7) / 8) := by
  unfold Scalar.bitLen
  split_ifs with h0
  · subst h0; simp
  · have h1 : P < 2 ^ (P.log2 + 1) := Nat.lt_log2_self
    have h2 : (256 : Nat) ^ ((P.log2 + 1 + 7) / 8) = 2 ^ (8 * ((P.log2 + 1 + 7) / 8)) := by
      rw [pow_mul]; norm_num
    rw [h2]
    exact lt_of_lt_of_le h1 (Nat.pow_le_pow_right (by norm_num) (by omega))

/-! ### `sqrtRatio` (Edwards decoders) -/

theorem sqrtRatio_aux (p s u v x1 x : Nat) (hp : 0 < p) (hs : ((s : ZMod p))^2 = -1) (hx1 : x1 < p)
    (h : (if v * (x1 * x1 % p) % p = u % p then some x1
          else if v * (x1 * x1 % p) % p = negMod u p then some (x1 * s % p) else none) = some x) :
    (v : ZMod p) * (x : ZMod p)^2 = u ∧ x < p := by
  split_ifs at h with h1 h2
  · cases h
    refine ⟨?_, hx1⟩
    have := (mod_eq_iff_cast p _ _).mp h1
    simp only [Nat.cast_mul, ZMod.natCast_mod] at this
    linear_combination this
  · cases h
    refine ⟨?_, Nat.mod_lt _ hp⟩
    have h3 : (_ : ZMod p) = _ := congrArg (Nat.cast (R := ZMod p)) h2
    rw [cast_negMod hp] at h3
    simp only [ZMod.natCast_mod, Nat.cast_mul] at h3 ⊢
    linear_combination ((s : ZMod p)^2) * h3 + (-(u : ZMod p)) * hs

/-- What `sqrtRatio` returns satisfies `v x² = u` in `ZMod p` (given `s² = -1`) and is reduced. -/
theorem sqrtRatio_spec (p s u v x : Nat) (hp : 0 < p) (hs : ((s : ZMod p))^2 = -1)
    (h : Edwards.sqrtRatio p s u v = some x) : (v : ZMod p) * (x : ZMod p)^2 = u ∧ x < p :=
  sqrtRatio_aux p s u v _ x hp hs (Nat.mod_lt _ hp) h

/-! ### Scalar multiplication of the point at infinity -/

theorem smulAux_none (c : Weierstrass.Curve) (fuel k : Nat) : Weierstrass.smulAux c fuel k none = none := by
  induction fuel generalizing k with
  | zero => rfl
  | succ f ih =>
    simp only [Weierstrass.smulAux, ih]
    split_ifs <;> rfl

theorem smul_none (c : Weierstrass.Curve) (k : Nat) : Weierstrass.smul c k none = none :=
  smulAux_none c _ k

theorem fp2_smulAux_none (c : Fp2.Curve) (fuel k : Nat) : Fp2.smulAux c fuel k none = none := by
  induction fuel generalizing k with
  | zero => rfl
  | succ f ih =>
    simp only [Fp2.smulAux, ih]
    split_ifs <;> rfl

theorem fp2_smul_none (c : Fp2.Curve) (k : Nat) : Fp2.smul c k none = none :=
  fp2_smulAux_none c _ k

/-! ### Ed25519 constants and the bit-255 packing -/
section Ed
open Kyber.Ed25519 Kyber.Edwards

theorem ed_p_pos : 0 < Ed25519.p := by norm_num [Ed25519.p]
theorem ed_p_lt : Ed25519.p < 2 ^ 255 := by norm_num [Ed25519.p]
theorem ed_p_odd : Ed25519.p % 2 = 1 := by norm_num [Ed25519.p]
theorem ed_sqrtM1_sq : ((Ed25519.sqrtM1 : ZMod Ed25519.p))^2 = -1 := by
  have h : (Ed25519.sqrtM1 * Ed25519.sqrtM1 + 1) % Ed25519.p = 0 % Ed25519.p := by
    norm_num [Ed25519.sqrtM1, Ed25519.p]
  have := (mod_eq_iff_cast Ed25519.p _ _).mp h
  push_cast at this
  linear_combination this

theorem ed_negMod_of_pos (x : Nat) (h0 : 0 < x) (hx : x < Ed25519.p) : negMod x Ed25519.p = Ed25519.p - x := by
  unfold negMod
  rw [Nat.mod_eq_of_lt hx, Nat.mod_eq_of_lt (by omega)]

theorem ed_negMod_zero : negMod 0 Ed25519.p = 0 := by
  unfold negMod; simp

theorem ed_enc_eq (P : Edwards.Pt) :
    Ed25519.enc P = encodeLE 32 (P.y % Ed25519.p + 2 ^ 255 * (P.x % Ed25519.p % 2)) := by
  have h1 : Ed25519.enc P = encodeLE 32 (P.y % Ed25519.curve.p + 2 ^ 255 * (P.x % Ed25519.curve.p % 2)) := rfl
  have cp : Ed25519.curve.p = Ed25519.p := rfl
  rw [h1, cp]

/-- Re-selecting the sign from the parity of the decoded `x` gives back the decoded `x`. -/
theorem ed_sign_fix (x0 s px : Nat) (hx0 : x0 < Ed25519.p)
    (hx : px = if x0 % 2 = s then x0 else negMod x0 Ed25519.p) :
    (if x0 % 2 = px % 2 then x0 else negMod x0 Ed25519.p) = px := by
  have hodd := ed_p_odd
  rw [hx]
  by_cases hc : x0 % 2 = s
  · simp [hc]
  · simp only [hc, if_false]
    rcases Nat.eq_zero_or_pos x0 with h0 | h0
    · subst h0; simp [ed_negMod_zero]
    · rw [ed_negMod_of_pos x0 h0 hx0]
      have : ¬ (x0 % 2 = (Ed25519.p - x0) % 2) := by omega
      simp [this]

theorem ed_decodeLE_enc (P : Edwards.Pt) (hxlt : P.x < Ed25519.p) (hylt : P.y < Ed25519.p) :
    decodeLE (Ed25519.enc P) = P.y + 2 ^ 255 * (P.x % 2) := by
  have hp := ed_p_lt
  have hm : P.y % Ed25519.p + 2 ^ 255 * (P.x % Ed25519.p % 2) < 256 ^ 32 := by
    rw [Nat.mod_eq_of_lt hylt]; omega
  rw [ed_enc_eq, decodeLE_encodeLE_of_lt 32 _ hm, Nat.mod_eq_of_lt hylt, Nat.mod_eq_of_lt hxlt]

theorem ed_split_y (x y : Nat) (hylt : y < Ed25519.p) :
    (y + 2 ^ 255 * (x % 2)) % 2 ^ 255 % Ed25519.p = y := by
  have hp := ed_p_lt
  have : (y + 2 ^ 255 * (x % 2)) % 2 ^ 255 = y := by omega
  rw [this, Nat.mod_eq_of_lt hylt]

theorem ed_split_sign (x y : Nat) (hylt : y < Ed25519.p) : (y + 2 ^ 255 * (x % 2)) / 2 ^ 255 = x % 2 := by
  have hp := ed_p_lt
  omega

/-- Shape of an accepted Ed25519 decoding. -/
theorem ed_dec_some (bs : Bytes) (P : Edwards.Pt) (h : Ed25519.dec bs = some P) :
    bs.length = 32 ∧ ∃ x0, Edwards.sqrtRatio Ed25519.p Ed25519.sqrtM1 (subMod (P.y * P.y) 1 Ed25519.p)
        ((Ed25519.d * (P.y * P.y % Ed25519.p) + 1) % Ed25519.p) = some x0 ∧
      P.y = decodeLE bs % 2 ^ 255 % Ed25519.p ∧
      P.x = if x0 % 2 = decodeLE bs / 2 ^ 255 then x0 else negMod x0 Ed25519.p := by
  unfold Ed25519.dec at h
  split_ifs at h with h1
  rw [not_not] at h1
  simp only at h
  split at h
  · cases h
  · rename_i x0 hx0
    cases h
    exact ⟨h1, x0, hx0, rfl, rfl⟩

/-- `dec` on a 32-byte string, from the recovered `y`, sign and square root. -/
theorem ed_dec_of (bs : Bytes) (hl : bs.length = 32) (y sgn x0 : Nat)
    (hy : decodeLE bs % 2 ^ 255 % Ed25519.p = y) (hsg : decodeLE bs / 2 ^ 255 = sgn)
    (hs : Edwards.sqrtRatio Ed25519.p Ed25519.sqrtM1 (subMod (y * y) 1 Ed25519.p)
        ((Ed25519.d * (y * y % Ed25519.p) + 1) % Ed25519.p) = some x0) :
    Ed25519.dec bs = some ⟨if x0 % 2 = sgn then x0 else negMod x0 Ed25519.p, y⟩ := by
  subst hy hsg
  unfold Ed25519.dec
  rw [if_neg (not_not.mpr hl)]
  simp only []
  split
  · next h => rw [hs] at h; cases h
  · next x hx => rw [hs] at hx; cases hx; rfl

end Ed
end Kyber.DecodeLib
