import KyberModel.Props.C11RabinDkg2
/-
No call of a Rabin DKG node panics, for every history (model `Kyber.RabinDkg`, the repaired code).

The model reports a Go panic in three ways: the DKG-level outcome `.panic` (a nil `Deal()` dereferenced in
`ProcessSecretCommits`; the documented panics of `Deals()`), and the VSS-level outcome `.errVss .panic` (a nil
aggregator dereferenced by a verifier). Both are excluded by one invariant: every verifier a node holds has an
aggregator that holds a deal — established when `ProcessDeal` stores the verifier and kept by every VSS operation.
-/
namespace Kyber.RabinDkg
open Kyber.Vss

/-! ### the VSS layer keeps a stored deal -/

theorem verifyDeal_keeps_deal (cfg : Cfg) (a : Agg) (d : Deal) (incl : Bool) (dl : Deal) (h : a.deal = some dl) :
    (verifyDeal cfg a d incl).1.deal = some dl := by
  unfold verifyDeal
  have hadopt : adopt cfg a d = a := by unfold adopt; rw [h]
  split
  · exact h
  · simp only [hadopt]; exact h

theorem addResponse_keeps_deal {cfg : Cfg} {a a' : Agg} {idx : Nat} {b : Bool}
    (h : addResponse cfg a idx b = .ok a') : a'.deal = a.deal := by
  unfold addResponse at h
  split at h
  · cases h
  · split at h
    · cases h
    · cases h; rfl

theorem verifyResponse_keeps_deal {cfg : Cfg} {a a' : Agg} {sid idx : Nat} {ap sg : Bool}
    (h : verifyResponse cfg a sid idx ap sg = .ok a') : a'.deal = a.deal := by
  unfold verifyResponse at h
  split at h
  · cases h
  · split at h
    · cases h
    · split at h
      · cases h
      · exact addResponse_keeps_deal h

theorem cleanVerifiers_keeps_deal (a : Agg) (k : Nat) : (cleanVerifiers a k).deal = a.deal := by
  induction k with
  | zero => rfl
  | succ k ih =>
    simp only [cleanVerifiers]
    split
    · exact ih
    · exact ih

theorem verifyJustification_keeps_deal (cfg : Cfg) (a : Agg) (idx : Nat) (sg : Bool) (d dl : Deal)
    (h : a.deal = some dl) : (verifyJustification cfg a idx sg d).1.deal = some dl := by
  unfold verifyJustification
  have hv := verifyDeal_keeps_deal cfg a d false dl h
  split
  · exact h
  · split
    · exact h
    · exact h
    · split
      · exact h
      · split
        · rename_i a' e heq; rw [heq] at hv; exact hv
        · rename_i a' heq
          rw [heq] at hv
          split
          · exact hv
          · exact hv

theorem processDealOn_keeps_deal (cfg : Cfg) (me : Nat) (a : Agg) (d dl : Deal) (h : a.deal = some dl) :
    (processDealOn cfg me a d).1.deal = some dl := by
  unfold processDealOn
  have hv := verifyDeal_keeps_deal cfg a d true dl h
  split
  · rename_i a' heq; rw [heq] at hv; exact hv
  · rename_i a' e hne heq
    rw [heq] at hv
    split
    · exact hv
    · rename_i a'' hadd
      rw [addResponse_keeps_deal hadd]; exact hv

/-- The first deal is adopted before it is checked: whatever the verdict, the aggregator then holds it. -/
theorem processDealOn_adopts (cfg : Cfg) (me : Nat) (a : Agg) (d : Deal) (h : a.deal = none) :
    (processDealOn cfg me a d).1.deal = some d := by
  have hv : (verifyDeal cfg a d true).1.deal = some d := by
    unfold verifyDeal
    rw [h]
    simp only [Option.isSome_none, Bool.false_and, Bool.false_eq_true, if_false]
    unfold adopt
    rw [h]
  unfold processDealOn
  split
  · rename_i a' heq; rw [heq] at hv; exact hv
  · rename_i a' e hne heq
    rw [heq] at hv
    split
    · exact hv
    · rename_i a'' hadd
      rw [addResponse_keeps_deal hadd]; exact hv

/-- A verifier (or dealer) whose aggregator holds a deal keeps that aggregator and that deal under every VSS
    operation. -/
theorem step_keeps_deal (cfg : Cfg) (nd : Vss.Node) (op : Vss.Op) (a : Agg) (dl : Deal)
    (h : nd.agg = some a) (hd : a.deal = some dl) :
    ∃ a', (Vss.step cfg nd op).1.agg = some a' ∧ a'.deal = some dl := by
  obtain ⟨role, agg⟩ := nd
  simp only at h
  subst h
  cases op with
  | encDeal sg op d =>
    cases role with
    | verifier me =>
      simp only [Vss.step]
      split
      · exact ⟨a, rfl, hd⟩
      · split
        · exact ⟨a, rfl, hd⟩
        · simp only [Vss.processDeal]
          split
          · exact ⟨a, rfl, hd⟩
          · exact ⟨_, rfl, processDealOn_keeps_deal cfg me _ d dl (by simpa [baseAgg] using hd)⟩
    | dealer => exact ⟨a, rfl, hd⟩
  | response sid idx ap sg =>
    cases role with
    | verifier me =>
      simp only [Vss.step]
      split
      · exact ⟨a, rfl, hd⟩
      · split
        · exact ⟨a, rfl, hd⟩
        · rename_i a' hv
          exact ⟨a', rfl, by rw [verifyResponse_keeps_deal hv]; exact hd⟩
    | dealer =>
      simp only [Vss.step]
      split
      · exact ⟨a, rfl, hd⟩
      · rename_i a' hv
        exact ⟨a', rfl, by rw [verifyResponse_keeps_deal hv]; exact hd⟩
  | justification idx sg d =>
    cases role with
    | verifier me =>
      simp only [Vss.step]
      have he := verifyJustification_keeps_deal cfg a idx sg d dl hd
      split
      · rename_i a' heq; rw [heq] at he; exact ⟨a', rfl, he⟩
      · rename_i a' e heq; rw [heq] at he; exact ⟨a', rfl, he⟩
    | dealer => exact ⟨a, rfl, hd⟩
  | setTimeout =>
    simp only [Vss.step]
    split
    · exact ⟨_, rfl, hd⟩
    · exact ⟨_, rfl, by rw [cleanVerifiers_keeps_deal]; exact hd⟩
  | unsafeSet idx ap =>
    simp only [Vss.step]
    split
    · exact ⟨a, rfl, hd⟩
    · split
      · exact ⟨a, rfl, hd⟩
      · rename_i a' hadd
        exact ⟨a', rfl, by rw [addResponse_keeps_deal hadd]; exact hd⟩
  | setThreshold t =>
    simp only [Vss.step]
    split
    · exact ⟨_, rfl, hd⟩
    · exact ⟨a, rfl, hd⟩
  | verifyDeal d incl =>
    simp only [Vss.step]
    have hs := verifyDeal_keeps_deal cfg a d incl dl hd
    split
    · rename_i a' heq; rw [heq] at hs; exact ⟨a', rfl, hs⟩
    · rename_i a' e heq; rw [heq] at hs; exact ⟨a', rfl, hs⟩

/-- The verifier holds a deal. -/
def HasDeal (v : Vss.Node) : Prop := ∃ a dl, v.agg = some a ∧ a.deal = some dl

theorem run_hasDeal (cfg : Cfg) (v : Vss.Node) (h : HasDeal v) (ops : List Vss.Op) : HasDeal (Vss.run cfg v ops) := by
  induction ops generalizing v with
  | nil => exact h
  | cons op ops ih =>
    obtain ⟨a, dl, ha, hd⟩ := h
    obtain ⟨a', ha', hd'⟩ := step_keeps_deal cfg v op a dl ha hd
    exact ih _ ⟨a', dl, ha', hd'⟩

/-- A fresh Rabin verifier that answers its first deal with a response (approval or complaint) holds that deal. -/
theorem encDeal_hasDeal (cfg : Cfg) (hv : cfg.variant = .rabin) (me : Nat) (s o : Bool) (d : Deal)
    (h : (Vss.step cfg (newVerifier cfg me) (.encDeal s o d)).2 = .approve ∨
         (Vss.step cfg (newVerifier cfg me) (.encDeal s o d)).2 = .complain) :
    HasDeal (Vss.step cfg (newVerifier cfg me) (.encDeal s o d)).1 := by
  have hnv : newVerifier cfg me = ⟨.verifier me, none⟩ := by unfold newVerifier; rw [hv]
  rw [hnv] at h ⊢
  simp only [Vss.step] at h ⊢
  cases s with
  | false => simp at h
  | true =>
    cases o with
    | false => simp at h
    | true =>
      simp only [Bool.not_true, Bool.false_eq_true, if_false] at h ⊢
      simp only [Vss.processDeal] at h ⊢
      by_cases hi : (d.i != me) = true
      · simp [hi] at h
      · simp only [hi, Bool.false_eq_true, if_false] at h ⊢
        exact ⟨_, d, rfl, processDealOn_adopts cfg me _ d rfl⟩

/-! ### no VSS operation on an existing aggregator panics -/

theorem processDeal_ne_panic (cfg : Cfg) (me : Nat) (agg : Option Agg) (d : Deal) :
    (Vss.processDeal cfg me agg d).2 ≠ .panic := by
  unfold Vss.processDeal
  split
  · simp
  · unfold processDealOn
    repeat' split
    all_goals simp

theorem vss_encDeal_ne_panic (cfg : Cfg) (nd : Vss.Node) (s o : Bool) (d : Deal) :
    (Vss.step cfg nd (.encDeal s o d)).2 ≠ .panic := by
  obtain ⟨role, agg⟩ := nd
  cases role with
  | verifier me =>
    simp only [Vss.step]
    split
    · simp
    · split
      · simp
      · exact processDeal_ne_panic cfg me agg d
  | dealer => simp [Vss.step]

theorem vss_step_ne_panic (cfg : Cfg) (nd : Vss.Node) (op : Vss.Op) (a : Agg) (h : nd.agg = some a) :
    (Vss.step cfg nd op).2 ≠ .panic := by
  cases op with
  | encDeal s o d => exact vss_encDeal_ne_panic cfg nd s o d
  | response sid idx ap sg =>
    obtain ⟨role, agg⟩ := nd; simp only at h; subst h
    cases role <;> simp only [Vss.step] <;> (repeat' split) <;> simp
  | justification idx sg d =>
    obtain ⟨role, agg⟩ := nd; simp only at h; subst h
    cases role <;> simp only [Vss.step] <;> (repeat' split) <;> simp
  | setTimeout =>
    obtain ⟨role, agg⟩ := nd; simp only at h; subst h
    cases role <;> simp only [Vss.step] <;> (repeat' split) <;> simp
  | unsafeSet idx ap =>
    obtain ⟨role, agg⟩ := nd; simp only at h; subst h
    cases role <;> simp only [Vss.step] <;> (repeat' split) <;> simp
  | setThreshold t =>
    obtain ⟨role, agg⟩ := nd; simp only at h; subst h
    cases role <;> simp only [Vss.step] <;> (repeat' split) <;> simp
  | verifyDeal d incl =>
    obtain ⟨role, agg⟩ := nd; simp only at h; subst h
    cases role <;> simp only [Vss.step] <;> (repeat' split) <;> simp

/-! ### the DKG layer -/

/-- Every verifier the node holds has an aggregator with a deal; the node's own dealer has an aggregator. -/
structure Inv2 (cfg : Cfg) (nd : Node) : Prop where
  ver : ∀ j v, nd.verifiers.lookup j = some v → HasDeal v
  dealer : ∃ a, nd.dealer.agg = some a

theorem inv2_init (cfg : Cfg) (me t dsid : Nat) : Inv2 cfg (init me t dsid) :=
  ⟨fun j v h => by simp [init] at h, ⟨_, rfl⟩⟩

theorem hasDeal_step {cfg : Cfg} {v : Vss.Node} (h : HasDeal v) (op : Vss.Op) : HasDeal (Vss.step cfg v op).1 := by
  obtain ⟨a, dl, ha, hd⟩ := h
  obtain ⟨a', ha', hd'⟩ := step_keeps_deal cfg v op a dl ha hd
  exact ⟨a', dl, ha', hd'⟩

theorem lookup_setV_hasDeal (vs : VMap) (idx : Nat) (v : Vss.Node) (hv : HasDeal v)
    (h : ∀ j x, vs.lookup j = some x → HasDeal x) : ∀ j x, (setV vs idx v).lookup j = some x → HasDeal x := by
  intro j x hj
  rw [lookup_setV] at hj
  by_cases hji : j = idx
  · rw [if_pos hji] at hj
    cases hl : vs.lookup j with
    | none => rw [hl] at hj; cases hj
    | some y => rw [hl] at hj; simp at hj; rw [← hj]; exact hv
  · rw [if_neg hji] at hj
    exact h j x hj

theorem processDeal_inv2 (cfg : Cfg) (hv : cfg.variant = .rabin) (nd : Node) (idx : Nat) (s o : Bool) (d : Deal)
    (h : Inv2 cfg nd) : Inv2 cfg (processDeal cfg nd idx s o d).1 := by
  have key : ∀ (v : Vss.Node) (out : Vss.Out),
      Vss.step cfg (newVerifier cfg nd.me) (.encDeal s o d) = (v, out) → (out = .approve ∨ out = .complain) →
      Inv2 cfg { nd with verifiers := nd.verifiers ++ [(idx, (Vss.step cfg v (.unsafeSet idx true)).1)] } := by
    intro v out heq hout
    have hv1 : HasDeal v := by
      have := encDeal_hasDeal cfg hv nd.me s o d (by rw [heq]; exact hout)
      rw [heq] at this; exact this
    refine ⟨?_, h.dealer⟩
    intro j x hj
    simp only at hj
    rw [lookup_append_new] at hj
    cases hl : nd.verifiers.lookup j with
    | some y => rw [hl] at hj; simp at hj; rw [← hj]; exact h.ver j y hl
    | none =>
      rw [hl] at hj
      by_cases hji : j = idx
      · simp [hji] at hj; rw [← hj]; exact hasDeal_step hv1 _
      · simp [hji] at hj
  unfold processDeal
  split
  · exact h
  · split
    · exact h
    · split
      · rename_i v heq; exact key v _ heq (Or.inl rfl)
      · rename_i v heq; exact key v _ heq (Or.inr rfl)
      · exact h

theorem dealer_some_step {cfg : Cfg} {dl : Vss.Node} (h : ∃ a, dl.agg = some a) (op : Vss.Op) :
    ∃ a, (Vss.step cfg dl op).1.agg = some a := by
  obtain ⟨a, ha⟩ := h
  obtain ⟨a', ha', _⟩ := step_some cfg dl op a ha
  exact ⟨a', ha'⟩

theorem dealerSlotApproved_some {dl : Vss.Node} (h : ∃ a, dl.agg = some a) (vidx : Nat) :
    ∃ a, (dealerSlotApproved dl vidx).agg = some a := by
  obtain ⟨a, ha⟩ := h
  refine ⟨{ a with responses := setApproved a.responses vidx }, ?_⟩
  simp [dealerSlotApproved, ha]

/-- The calls a node can actually be given: `Deals()` with an own deal it would refuse panics by contract and
    is left out; a complaint about the node's own deal is answered from the node's own plaintext deals. -/
def OpOk (nd : Node) : Op → Prop
  | .ownDeal _ => False
  | .response idx _ _ _ _ own => idx = nd.me → own.isSome = true
  | _ => True

theorem step_inv2 (cfg : Cfg) (hv : cfg.variant = .rabin) (nd : Node) (h : Inv2 cfg nd) (op : Op) :
    Inv2 cfg (step cfg nd op).1 := by
  cases op with
  | deal idx s o d => exact processDeal_inv2 cfg hv nd idx s o d h
  | ownDeal d =>
    simp only [step, ownDeal]
    split
    · exact h
    · have hp := processDeal_inv2 cfg hv nd nd.me true true d h
      split
      · rename_i nd' heq
        rw [heq] at hp
        exact ⟨hp.ver, dealer_some_step hp.dealer _⟩
      · rename_i nd' o _ heq
        rw [heq] at hp; exact hp
  | response idx sid vidx a s own =>
    simp only [step, processResponse]
    split
    · exact h
    · rename_i v hl
      have hv0 := h.ver idx v hl
      split
      · rename_i v' heq
        have hv' : HasDeal v' := by
          have := hasDeal_step (cfg := cfg) hv0 (.response sid vidx a s)
          rw [heq] at this; exact this
        split
        · exact ⟨lookup_setV_hasDeal _ _ _ hv' h.ver, h.dealer⟩
        · split
          · rename_i dl heq2
            have := dealer_some_step (cfg := cfg) h.dealer (.response sid vidx a s)
            rw [heq2] at this
            exact ⟨lookup_setV_hasDeal _ _ _ hv' h.ver, this⟩
          · rename_i dl heq2
            have hdl := dealer_some_step (cfg := cfg) h.dealer (.response sid vidx a s)
            rw [heq2] at hdl
            split
            · exact ⟨lookup_setV_hasDeal _ _ _ hv' h.ver, hdl⟩
            · rename_i od
              have hv'' := hasDeal_step (cfg := cfg) hv' (.justification vidx true od)
              split
              · rename_i v'' heq3
                rw [heq3] at hv''
                exact ⟨lookup_setV_hasDeal _ _ _ hv'' h.ver, dealerSlotApproved_some hdl _⟩
              · rename_i v'' o _ heq3
                rw [heq3] at hv''
                exact ⟨lookup_setV_hasDeal _ _ _ hv'' h.ver, hdl⟩
          · exact ⟨lookup_setV_hasDeal _ _ _ hv' h.ver, h.dealer⟩
      · exact h
  | justification idx wf s vidx d =>
    simp only [step, processJustification]
    split
    · exact h
    · rename_i v hl
      have hv0 := h.ver idx v hl
      split
      · exact h
      · split
        · exact h
        · have hv' := hasDeal_step (cfg := cfg) hv0 (.justification vidx s d)
          split
          · rename_i v' heq
            rw [heq] at hv'
            refine ⟨lookup_setV_hasDeal _ _ _ hv' h.ver, ?_⟩
            simp only
            split
            · exact dealerSlotApproved_some h.dealer _
            · exact h.dealer
          · rename_i v' o _ heq
            rw [heq] at hv'
            exact ⟨lookup_setV_hasDeal _ _ _ hv' h.ver, h.dealer⟩
  | setTimeout =>
    refine ⟨?_, h.dealer⟩
    intro j x hj
    have hvv : (step cfg nd .setTimeout).1.verifiers =
        nd.verifiers.map (fun p => (p.1, (fun y => (Vss.step cfg y .setTimeout).1) p.2)) := rfl
    rw [hvv, lookup_map_snd nd.verifiers (fun y => (Vss.step cfg y .setTimeout).1) j] at hj
    cases hl : nd.verifiers.lookup j with
    | none => rw [hl] at hj; cases hj
    | some y => rw [hl] at hj; simp at hj; rw [← hj]; exact hasDeal_step (h.ver j y hl) _
  | secretCommits cs =>
    simp only [step, secretCommits]
    split
    · exact h
    · exact ⟨h.ver, h.dealer⟩
  | procSecretCommits idx sid s cs =>
    simp only [step, processSecretCommits]
    repeat' split
    all_goals first | exact h | exact ⟨h.ver, h.dealer⟩
  | procComplaintCommits issuer didx s d =>
    simp only [step, processComplaintCommits]
    split
    · exact h
    · split
      · exact h
      · split
        · exact h
        · split
          · exact h
          · rename_i v hl
            have hv' := hasDeal_step (cfg := cfg) (h.ver didx v hl) (.verifyDeal d false)
            split
            · rename_i v' heq
              rw [heq] at hv'
              have hset := lookup_setV_hasDeal _ didx _ hv' h.ver
              repeat' split
              all_goals exact ⟨hset, h.dealer⟩
            · rename_i v' o _ heq
              rw [heq] at hv'
              exact ⟨lookup_setV_hasDeal _ _ _ hv' h.ver, h.dealer⟩
  | procReconstruct sid index didx hs si sv s =>
    simp only [step, processReconstruct]
    repeat' split
    all_goals first | exact h | exact ⟨h.ver, h.dealer⟩

/-- **No call panics.** In every state reachable from `init` by calls a node can be given, the next call answers
with a value or an error: neither a nil `Deal()` (DKG level) nor a nil aggregator (VSS level) is dereferenced. -/
theorem step_no_panic (cfg : Cfg) (nd : Node) (h : Inv2 cfg nd) (op : Op) (hop : OpOk nd op) :
    (step cfg nd op).2 ≠ .panic ∧ (step cfg nd op).2 ≠ .errVss .panic := by
  cases op with
  | deal idx s o d =>
    simp only [step, processDeal]
    have hne := vss_encDeal_ne_panic cfg (newVerifier cfg nd.me) s o d
    split
    · constructor <;> simp
    · split
      · constructor <;> simp
      · split
        · constructor <;> simp
        · constructor <;> simp
        · rename_i v o' h1 h2 heq
          rw [heq] at hne
          constructor
          · simp
          · intro hc; simp at hc; exact hne hc
  | ownDeal d => exact absurd hop id
  | response idx sid vidx a s own =>
    simp only [step, processResponse]
    split
    · constructor <;> simp
    · rename_i v hl
      obtain ⟨av, _, hav, _⟩ := h.ver idx v hl
      have h1 := vss_step_ne_panic cfg v (.response sid vidx a s) av hav
      split
      · rename_i v' heq
        split
        · constructor <;> simp
        · rename_i hidx
          have hidx' : idx = nd.me := by simpa using hidx
          obtain ⟨ad, had⟩ := h.dealer
          have h2 := vss_step_ne_panic cfg nd.dealer (.response sid vidx a s) ad had
          split
          · constructor <;> simp
          · have hown := hop hidx'
            split
            · exact absurd hown (by simp)
            · rename_i od
              have hv' : HasDeal v' := by
                have := hasDeal_step (cfg := cfg) ⟨av, _, hav, ‹_›⟩ (.response sid vidx a s)
                rw [heq] at this; exact this
              obtain ⟨av', _, hav', _⟩ := hv'
              have h3 := vss_step_ne_panic cfg v' (.justification vidx true od) av' hav'
              split
              · constructor <;> simp
              · rename_i v'' o hno heq3
                rw [heq3] at h3
                constructor
                · simp
                · intro hc; simp at hc; exact h3 hc
          · rename_i dl o hno1 hno2 heq2
            rw [heq2] at h2
            constructor
            · simp
            · intro hc; simp at hc; exact h2 hc
      · rename_i v' o hno heq
        rw [heq] at h1
        constructor
        · simp
        · intro hc; simp at hc; exact h1 hc
  | justification idx wf s vidx d =>
    simp only [step, processJustification]
    split
    · constructor <;> simp
    · rename_i v hl
      obtain ⟨av, _, hav, _⟩ := h.ver idx v hl
      have h1 := vss_step_ne_panic cfg v (.justification vidx s d) av hav
      split
      · constructor <;> simp
      · split
        · constructor <;> simp
        · split
          · constructor <;> simp
          · rename_i v' o hno heq
            rw [heq] at h1
            constructor
            · simp
            · intro hc; simp at hc; exact h1 hc
  | setTimeout => constructor <;> simp [step]
  | secretCommits cs =>
    simp only [step, secretCommits]
    split <;> constructor <;> simp
  | procSecretCommits idx sid s cs =>
    simp only [step, processSecretCommits]
    split
    · constructor <;> simp
    · split
      · constructor <;> simp
      · rename_i a hq
        -- a qualified verifier holds a deal
        have hdeal : ∃ dl, a.deal = some dl := by
          unfold qualVerifier at hq
          split at hq
          · rename_i v hl
            split at hq
            · obtain ⟨av, dl, hav, hd⟩ := h.ver idx v hl
              rw [hav] at hq; cases hq; exact ⟨dl, hd⟩
            · cases hq
          · cases hq
        obtain ⟨dl, hd⟩ := hdeal
        split
        · constructor <;> simp
        · split
          · constructor <;> simp
          · split
            · constructor <;> simp
            · rw [hd]
              dsimp only
              split <;> constructor <;> simp
  | procComplaintCommits issuer didx s d =>
    simp only [step, processComplaintCommits]
    split
    · constructor <;> simp
    · split
      · constructor <;> simp
      · split
        · constructor <;> simp
        · split
          · constructor <;> simp
          · rename_i v hl
            obtain ⟨av, _, hav, _⟩ := h.ver didx v hl
            have h1 := vss_step_ne_panic cfg v (.verifyDeal d false) av hav
            split
            · repeat' split
              all_goals constructor <;> simp
            · rename_i v' o hno heq
              rw [heq] at h1
              constructor
              · simp
              · intro hc; simp at hc; exact h1 hc
  | procReconstruct sid index didx hs si sv s =>
    simp only [step, processReconstruct]
    repeat' split
    all_goals constructor <;> simp

/-- The calls of a history are admissible one after the other. -/
def OpsOk (cfg : Cfg) : Node → List Op → Prop
  | _, [] => True
  | nd, op :: ops => OpOk nd op ∧ OpsOk cfg (step cfg nd op).1 ops

theorem inv2_run (cfg : Cfg) (hv : cfg.variant = .rabin) (nd : Node) (h : Inv2 cfg nd) (ops : List Op) :
    Inv2 cfg (run cfg nd ops) := by
  induction ops generalizing nd with
  | nil => exact h
  | cons op ops ih => rw [run_cons]; exact ih _ (step_inv2 cfg hv nd h op)

/-- **For every history**: after any admissible sequence of calls from a fresh generator, the next admissible
call does not panic. -/
theorem no_panic_after_any_history (cfg : Cfg) (hv : cfg.variant = .rabin) (me t dsid : Nat) (ops : List Op)
    (op : Op) (hop : OpOk (run cfg (init me t dsid) ops) op) :
    (step cfg (run cfg (init me t dsid) ops) op).2 ≠ .panic ∧
    (step cfg (run cfg (init me t dsid) ops) op).2 ≠ .errVss .panic :=
  step_no_panic cfg _ (inv2_run cfg hv _ (inv2_init cfg me t dsid) ops) op hop

end Kyber.RabinDkg
