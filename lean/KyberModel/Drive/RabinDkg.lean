import KyberModel.Drive.Vss
import KyberModel.Proto.RabinDkg
/-
Handler `rdkg <strict 0|1> <n> <q> <h> <me> <t> <dsid> <op> <op> …` : Rabin DKG node, phase one (C11).

ops   : `D:<idx>:<sigOk>:<opens>:<deal>`              ProcessDeal
        `O:<deal>`                                    the own deal inside Deals()
        `R:<idx>:<sid>:<vidx>:<approved>:<sigOk>:<own deal|->`  ProcessResponse
        `J:<idx>:<wellFormed>:<sigOk>:<vidx>:<deal>`  ProcessJustification
        `T`                                           SetTimeout
        `S:<commit logs>`                             SecretCommits (own commitments)
        `C:<idx>:<sid>:<sigOk>:<commit logs>`         ProcessSecretCommits
        `P:<issuer>:<dealer>:<sigOk>:<deal>`          ProcessComplaintCommits
        `X:<sid>:<index>:<dealer>:<hasShare>:<I>:<V>:<sigOk>`  ProcessReconstructCommits
        `K`                                           DistKeyShare (query: output `key:<share>:<commits>` / `err`)
deal  : as in the `vss` handler
output: one token per op: `<out>#<certified>#<qual>#<idx>=<verifier state>;…#<finished>#<commitments>#<pending>#
        <reconstructed>#<state of the node's own VSS dealer>` (maps by index; verifier state rendered as by the `vss` handler; commitments
        `<idx>=<log>,…`; pending `<idx>=<sender>.<sid>.<I>.<V>,…`)
-/
namespace Kyber.Drive
open Kyber.Vss Kyber.RabinDkg

private def parseOwn (s : String) : Option (Option Deal) :=
  if s = "-" then some none else (vssParseDeal s).map some

private def parseRdkgOp (s : String) : Option RabinDkg.Op :=
  match s.splitOn ":" with
  | ["D", idx, a, b, d] => do pure (.deal (← hexN idx) (← vssBool01 a) (← vssBool01 b) (← vssParseDeal d))
  | ["O", d] => do pure (.ownDeal (← vssParseDeal d))
  | ["R", idx, sid, vidx, a, b, own] => do
    pure (.response (← hexN idx) (← hexN sid) (← hexN vidx) (← vssBool01 a) (← vssBool01 b) (← parseOwn own))
  | ["J", idx, wf, sg, vidx, d] => do
    pure (.justification (← hexN idx) (← vssBool01 wf) (← vssBool01 sg) (← hexN vidx) (← vssParseDeal d))
  | ["T"] => some .setTimeout
  | ["S", cs] => do pure (.secretCommits (← hexNList cs))
  | ["C", idx, sid, sg, cs] => do pure (.procSecretCommits (← hexN idx) (← hexN sid) (← vssBool01 sg) (← hexNList cs))
  | ["P", iss, dl, sg, d] => do pure (.procComplaintCommits (← hexN iss) (← hexN dl) (← vssBool01 sg) (← vssParseDeal d))
  | ["X", sid, idx, dl, hs, si, sv, sg] => do
    pure (.procReconstruct (← hexN sid) (← hexN idx) (← hexN dl) (← vssBool01 hs) (← hexN si) (← hexN sv) (← vssBool01 sg))
  | _ => none

private def rdkgOutS : RabinDkg.Out → String
  | .resp true => "approve" | .resp false => "complain" | .ok => "ok" | .justif => "justif"
  | .errIndex => "err:index" | .errDup => "err:dup" | .errNoDeal => "err:nodeal"
  | .errMalformed => "err:malformed" | .errSig => "err:sig"
  | .errVss o => "vss-" ++ vssOutS o | .panic => "panic"
  | .complaintCommits => "complaintcommits" | .reconstructCommits => "reconstructcommits"
  | .errQual => "err:qual" | .errSid => "err:sid" | .errCommits => "err:commits" | .errComplaint => "err:complaint"
  | .errShareIndex => "err:shareindex" | .errNotCertified => "err:notcertified"
  | .errRecover => "err:recover"

private def insNat (k : Nat) : List Nat → List Nat
  | [] => [k]
  | x :: xs => if k ≤ x then k :: x :: xs else x :: insNat k xs

private def insV (p : Nat × Vss.Node) : List (Nat × Vss.Node) → List (Nat × Vss.Node)
  | [] => [p]
  | x :: xs => if p.1 ≤ x.1 then p :: x :: xs else x :: insV p xs

private def rdkgStateS (cfg : Cfg) (nd : RabinDkg.Node) : String :=
  let q := (RabinDkg.qual cfg nd).foldr insNat []
  let qs := if q.isEmpty then "-" else ",".intercalate (q.map natToHex)
  let vs := (nd.verifiers.foldr insV []).map (fun p => natToHex p.1 ++ "=" ++ vssStateS cfg p.2)
  let vss := if vs.isEmpty then "-" else ";".intercalate vs
  let cm := (nd.commitments.foldr insK []).map (fun p => natToHex p.1 ++ "=" ++ hexL p.2)
  let cms := if cm.isEmpty then "-" else ";".intercalate cm
  let pd := (nd.pending.foldr insK []).map (fun p => natToHex p.1 ++ "=" ++
    (if p.2.isEmpty then "-" else ",".intercalate (p.2.map (fun r =>
      natToHex r.index ++ "." ++ natToHex r.sid ++ "." ++ natToHex r.si ++ "." ++ natToHex r.sv))))
  let pds := if pd.isEmpty then "-" else ";".intercalate pd
  let rc := nd.reconstructed.foldr insNat []
  let rcs := if rc.isEmpty then "-" else ",".intercalate (rc.map natToHex)
  (if RabinDkg.certified cfg nd then "1" else "0") ++ "#" ++ qs ++ "#" ++ vss ++ "#" ++
    (if RabinDkg.finished cfg nd then "1" else "0") ++ "#" ++ cms ++ "#" ++ pds ++ "#" ++ rcs ++ "#" ++
    vssStateS cfg nd.dealer
where
  hexL (l : List Nat) : String := if l.isEmpty then "-" else ",".intercalate (l.map natToHex)
  insK {α : Type} (p : Nat × α) : List (Nat × α) → List (Nat × α)
    | [] => [p]
    | x :: xs => if p.1 ≤ x.1 then p :: x :: xs else x :: insK p xs

private def keyS (cfg : Cfg) (nd : RabinDkg.Node) : String :=
  match RabinDkg.distKeyShare cfg nd with
  | none => "err"
  | some (sh, cs) => "key:" ++ natToHex sh ++ ":" ++ (if cs.isEmpty then "-" else ",".intercalate (cs.map natToHex))

/-- `none` = the query `K`. -/
private def runRdkg (cfg : Cfg) : RabinDkg.Node → List (Option RabinDkg.Op) → List String
  | _, [] => []
  | nd, none :: ops => (keyS cfg nd ++ "#" ++ rdkgStateS cfg nd) :: runRdkg cfg nd ops
  | nd, some op :: ops =>
    let (nd', o) := RabinDkg.step cfg nd op
    (rdkgOutS o ++ "#" ++ rdkgStateS cfg nd') :: runRdkg cfg nd' ops

def handleRdkg : List String → String
  | strict :: n :: q :: h :: me :: t :: dsid :: ops =>
    match vssBool01 strict, hexN n, hexN q, hexN h, hexN me, hexN t, hexN dsid, ops.mapM (fun o => if o = "K" then some none else (parseRdkgOp o).map some) with
    | some st, some n, some q, some h, some me, some t, some dsid, some ops =>
      let cfg : Cfg := { variant := .rabin, n := n, q := q, h := h, strict := st }
      let outs := runRdkg cfg (RabinDkg.init me t dsid) ops
      if outs.isEmpty then "-" else " ".intercalate outs
    | _, _, _, _, _, _, _, _ => badOp
  | _ => badOp

end Kyber.Drive
