import KyberModel.Core.Hex
import KyberModel.Core.Bytes
/-
Line-protocol helpers shared by all driver handlers. A handler maps the argument tokens of a line to
one output line; malformed lines answer `bad-op` (never a default value).
-/
namespace Kyber.Drive

def badOp : String := "bad-op"

def hexN (s : String) : Option Nat := parseHexNat? s
def hexB (s : String) : Option Bytes := parseHexBytes? s
def outN (n : Nat) : String := natToHex n
def outB (b : Bytes) : String := bytesToHex b
def outBool (b : Bool) : String := if b then "true" else "false"

/-- `a,b,c` comma-separated list of hex naturals; `-` for the empty list. -/
def hexNList (s : String) : Option (List Nat) :=
  if s = "-" then some [] else (s.splitOn ",").mapM hexN

def outNList (l : List Nat) : String :=
  if l.isEmpty then "-" else ",".intercalate (l.map natToHex)

end Kyber.Drive
