import KyberModel.Drive.Common
import KyberModel.Groups.Scalar
import KyberModel.Groups.Edwards
import KyberModel.Groups.Weierstrass
import KyberModel.Groups.Decode
import KyberModel.Groups.BlsG2
/-
Handler `grp <group> <program>`: straight-line programs of group / scalar operations over a pool of
variables, executed on the reference models (C01, C03, C05, C18). Value semantics: every statement
`dst=op:args` reads its operands first and then sets `dst`.

Program: statements separated by `;`
  points : pN=base | pN=null | pN=add:pA,pB | pN=sub:pA,pB | pN=neg:pA | pN=mul:sK,pA | pN=mulbase:sK
           pN=set:pA | pN=dec:<hex>
  scalars: sN=const:<hexnat> | sN=setbytes:<hex> (any length; the literal is little-endian, the harness reverses it for big-endian implementations) | sN=add:sA,sB | sN=sub:.. | sN=mul:.. | sN=neg:sA | sN=inv:sA | sN=div:sA,sB
           sN=set:sA
Output: `P:<enc p0>,<enc p1>,… S:<s0>,<s1>,…` (unset variables print `_`), or `err:<reason>`.
-/
namespace Kyber.Drive
open Kyber

structure GroupOps (α : Type) where
  q : Nat
  le : Bool   -- scalar byte order of SetBytes
  zero : α
  base : α
  add : α → α → α
  neg : α → α
  smul : Nat → α → α
  enc : α → Bytes
  dec : Bytes → Option α

def edOps : GroupOps Edwards.Pt :=
  { q := Ed25519.L, le := true, zero := Edwards.zero, base := Ed25519.base, add := Ed25519.add, neg := Ed25519.neg,
    smul := Ed25519.smul, enc := Ed25519.enc, dec := Ed25519.dec }

/-- Decoder for *canonical* uncompressed `X‖Y` encodings produced by the implementation (driver helper;
    the acceptance specification of C04 lives in Groups/Decode.lean). -/
def decXY (c : Weierstrass.Curve) (w : Nat) (pre : Bytes) (bs : Bytes) : Option Weierstrass.Pt :=
  if bs.length ≠ pre.length + 2 * w then none else
  if bs.take pre.length ≠ pre then none else
  let body := bs.drop pre.length
  let x := decodeBE (body.take w)
  let y := decodeBE (body.drop w)
  if x = 0 ∧ y = 0 then some none
  else if x < c.p ∧ y < c.p ∧ Weierstrass.onCurve c (some (x, y)) then some (some (x, y)) else none

def wOps (c : Weierstrass.Curve) (q : Nat) (base : Weierstrass.Pt) (enc : Weierstrass.Pt → Bytes)
    (dec : Bytes → Option Weierstrass.Pt) : GroupOps Weierstrass.Pt :=
  { q := q, le := false, zero := none, base := base, add := Weierstrass.add c, neg := Weierstrass.neg c,
    smul := Weierstrass.smul c, enc := enc, dec := dec }

/-- BLS12-381 G1 compressed decoding of canonical encodings (`p ≡ 3 mod 4`: `y = (x³+4)^((p+1)/4)`). -/
def decBlsG1 (bs : Bytes) : Option Weierstrass.Pt :=
  match bs with
  | [] => none
  | b0 :: rest =>
    if bs.length ≠ 48 then none else
    let flags := b0.toNat / 32
    if flags / 4 = 0 then none else
    if (flags / 2) % 2 = 1 then some none else
    let x := decodeBE (UInt8.ofNat (b0.toNat % 32) :: rest)
    let p := BLS12381.p
    if x ≥ p then none else
    let rhs := (x * x % p * x + 4) % p
    let y := powMod rhs ((p + 1) / 4) p
    if y * y % p ≠ rhs then none else
    let big := flags % 2 = 1
    let y' := if (y > (p - 1) / 2) = big then y else p - y
    some (some (x, y'))

/-- BN G2 (twist over Fp2, `Groups/Decode.lean`): the generator is given by its encoding as the Go source
    marshals it; decoding of canonical encodings by the C04 decoder. -/
def g2Ops (c : Fp2.Curve) (q : Nat) (dec : Bytes → Option Fp2.Pt) (baseHex : String) : GroupOps Fp2.Pt :=
  { q := q, le := false, zero := none,
    base := ((parseHexBytes? baseHex).bind dec).getD none,
    add := Fp2.addPt c, neg := Fp2.negPt c, smul := Fp2.smul c, enc := Fp2.enc, dec := dec }

def bn256G2Base : String :=
  "2ecca446ff6f3d4d03c76e9b5c752f28bc37b364cb05ac4a37eb32e1c32459708f25386f72c9462b81597d65ae2092c4b97792155dcdaad32b8a6dd41792534c2db10ef5233b0fe3962b9ee6a4bbc2b5bde01a54f3513d42df972e128f31bf12274e5747e8cafacc3716cc8699db79b22f0e4ff3c23e898f694420a3be3087a5"
def bn254G2Base : String :=
  "198e9393920d483a7260bfb731fb5d25f1aa493335a9e71297e485b7aef312c21800deef121f1e76426a00665e5c4479674322d4f75edadd46debd5cd992f6ed090689d0585ff075ec9e99ad690c3395bc4b313370b38ef355acdadcd122975b12c85ea5db8c6deb4aab71808dcb408fe3d1e7690c43d37b4ce6cc0166fa7daa"

/-- BLS12-381 G2 (`Groups/BlsG2.lean`): twist over Fp2, ZCash compressed encoding. -/
def blsG2Ops : GroupOps Fp2.Pt :=
  { q := BLS12381.r, le := false, zero := none, base := BLS12381.g2Base,
    add := Fp2.addPt BLS12381.twist, neg := Fp2.negPt BLS12381.twist, smul := Fp2.smul BLS12381.twist,
    enc := BLS12381.encG2, dec := BLS12381.decG2 }

/-- Residue (Schnorr) group of squares modulo a prime `P`, order `Q`, generator `G` (group/p256/residue.go):
    the group operation is multiplication mod `P`, inverses by Fermat, scalar multiplication is `powMod`. -/
def qrOps (P Q G : Nat) : GroupOps Nat :=
  { q := Q, le := false, zero := 1 % P, base := G % P,
    add := fun a b => a * b % P, neg := fun a => invMod a P, smul := fun k a => powMod a k P,
    enc := Residue.enc P, dec := Residue.dec P Q }

structure PState (α : Type) where
  pts : List (Option α)
  scs : List (Option Nat)

def setAt {β : Type} (l : List (Option β)) (i : Nat) (v : β) : List (Option β) :=
  let l' := if i < l.length then l else l ++ List.replicate (i + 1 - l.length) none
  l'.set i (some v)

def getAt {β : Type} (l : List (Option β)) (i : Nat) : Option β := (l.getD i none)

def varIdx (pre : Char) (s : String) : Option Nat :=
  match s.toList with
  | c :: rest => if c = pre then (String.ofList rest).toNat? else none
  | [] => none

def stepGrp {α : Type} (g : GroupOps α) (st : PState α) (stmt : String) : Except String (PState α) := do
  let (dst, rhs) ← match stmt.splitOn "=" with
    | [d, r] => pure (d, r)
    | _ => throw "syntax"
  let (op, args) := match rhs.splitOn ":" with
    | [o] => (o, ([] : List String))
    | [o, a] => (o, a.splitOn ",")
    | _ => ("?", [])
  let P (s : String) : Except String α := match varIdx 'p' s with
    | some i => match getAt st.pts i with | some v => pure v | none => throw "unset"
    | none => throw "operand"
  let S (s : String) : Except String Nat := match varIdx 's' s with
    | some i => match getAt st.scs i with | some v => pure v | none => throw "unset"
    | none => throw "operand"
  match varIdx 'p' dst, varIdx 's' dst with
  | some i, _ =>
    let v ← match op, args with
      | "base", [] => pure g.base
      | "null", [] => pure g.zero
      | "add", [a, b] => do pure (g.add (← P a) (← P b))
      | "sub", [a, b] => do pure (g.add (← P a) (g.neg (← P b)))
      | "neg", [a] => do pure (g.neg (← P a))
      | "mul", [k, a] => do pure (g.smul (← S k) (← P a))
      | "mulbase", [k] => do pure (g.smul (← S k) g.base)
      | "set", [a] => P a
      | "clone", [a] => P a
      | "dec", [h] => match hexB h with
        | some bs => match g.dec bs with | some v => pure v | none => throw "decode"
        | none => throw "hex"
      | _, _ => throw "op"
    pure { st with pts := setAt st.pts i v }
  | none, some i =>
    let q := g.q
    let v ← match op, args with
      | "const", [h] => match hexN h with | some n => pure (n % q) | none => throw "hex"
      | "setbytes", [h] => match hexB h with
        | some bs => pure (Scalar.setBytesLE q bs)
        | none => throw "hex"
      | "add", [a, b] => do pure (Scalar.add q (← S a) (← S b))
      | "sub", [a, b] => do pure (Scalar.sub q (← S a) (← S b))
      | "mul", [a, b] => do pure (Scalar.mul q (← S a) (← S b))
      | "div", [a, b] => do pure (Scalar.div q (← S a) (← S b))
      | "neg", [a] => do pure (Scalar.neg q (← S a))
      | "inv", [a] => do pure (Scalar.inv q (← S a))
      | "set", [a] => S a
      | _, _ => throw "op"
    pure { st with scs := setAt st.scs i v }
  | none, none => throw "dst"

def runGrp {α : Type} (g : GroupOps α) (prog : String) : String :=
  let stmts := (prog.splitOn ";").filter (· ≠ "")
  match stmts.foldlM (stepGrp g) { pts := [], scs := [] } with
  | .error e => "err:" ++ e
  | .ok st =>
    let ps := st.pts.map (fun o => match o with | some v => bytesToHex (g.enc v) | none => "_")
    let ss := st.scs.map (fun o => match o with | some v => natToHex v | none => "_")
    "P:" ++ ",".intercalate ps ++ " S:" ++ ",".intercalate ss

def handleGrp : List String → String
  | ["ed25519", prog] => runGrp edOps prog
  | ["p256", prog] =>
      runGrp (wOps P256.curve P256.n P256.base P256.enc (decXY P256.curve 32 [4])) prog
  | ["bn256g1", prog] =>
      runGrp (wOps BN256.curve BN256.n BN256.base BN256.enc (decXY BN256.curve 32 [])) prog
  | ["bn254g1", prog] =>
      runGrp (wOps BN254.curve BN254.n BN254.base BN254.enc (decXY BN254.curve 32 [])) prog
  | ["bls12381g1", prog] =>
      runGrp (wOps BLS12381.curve BLS12381.r BLS12381.base BLS12381.enc decBlsG1) prog
  | ["bn256g2", prog] => runGrp (g2Ops BN256.twist BN256.n BN256.decG2 bn256G2Base) prog
  | ["bn254g2", prog] => runGrp (g2Ops BN254.twist BN254.n BN254.decG2 bn254G2Base) prog
  | ["bls12381g2", prog] => runGrp blsG2Ops prog
  | [model, prog] =>
    match model.splitOn ":" with
    | ["qr", ps, qs, gs] => match hexN ps, hexN qs, hexN gs with
      | some P, some Q, some G => runGrp (qrOps P Q G) prog
      | _, _, _ => badOp
    | _ => badOp
  | _ => badOp

end Kyber.Drive
