import KyberModel.Drive.Common
import KyberModel.Groups.Scalar
/- Handler `sc <q> <op> args…` : scalar model (C02). -/
namespace Kyber.Drive
open Kyber.Scalar

def handleSc : List String → String
  | [qs, "add", a, b] => match hexN qs, hexN a, hexN b with
    | some q, some a, some b => outN (add q a b) | _, _, _ => badOp
  | [qs, "sub", a, b] => match hexN qs, hexN a, hexN b with
    | some q, some a, some b => outN (sub q a b) | _, _, _ => badOp
  | [qs, "mul", a, b] => match hexN qs, hexN a, hexN b with
    | some q, some a, some b => outN (mul q a b) | _, _, _ => badOp
  | [qs, "div", a, b] => match hexN qs, hexN a, hexN b with
    | some q, some a, some b => outN (div q a b) | _, _, _ => badOp
  | [qs, "neg", a] => match hexN qs, hexN a with
    | some q, some a => outN (neg q a) | _, _ => badOp
  | [qs, "inv", a] => match hexN qs, hexN a with
    | some q, some a => outN (inv q a) | _, _ => badOp
  | [qs, "one"] => match hexN qs with | some q => outN (one q) | _ => badOp
  | [qs, "zero"] => match hexN qs with | some q => outN (zero q) | _ => badOp
  | [qs, "setint64", v] => match hexN qs, parseInt? v with
    | some q, some v => outN (setInt64 q v) | _, _ => badOp
  | [qs, "setbytesle", b] => match hexN qs, hexB b with
    | some q, some b => outN (setBytesLE q b) | _, _ => badOp
  | [qs, "setbytesbe", b] => match hexN qs, hexB b with
    | some q, some b => outN (setBytesBE q b) | _, _ => badOp
  | [qs, "pick", st] => match hexN qs, hexB st with
    | some q, some st => (match pick q st with
        | some (v, n) => s!"{outN v} {n}"
        | none => "exhausted")
    | _, _ => badOp
  | _ => badOp

end Kyber.Drive
