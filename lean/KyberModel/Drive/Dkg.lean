import KyberModel.Drive.Common
import KyberModel.Proto.Dkg
/-
Handler `dkg <cfg> <call> …` : one Pedersen DKG node (C11), run through a sequence of calls.

cfg  : `q;old;new;thr;oldThr;fast;nonce;resharing;canIssue;canReceive;oidx;nidx;oldT;newT;dpriv;olddpub;fixLeaving;fixPhase`
       node lists `idx.pub,idx.pub,…`, number lists `a,b,…` (`-` empty), everything hex, booleans 0/1
calls: `D`                         Deals()
       `PD:<b>|<b>…`               ProcessDeals, b = `dealer/sid/pub,…/idx.opens.value~…`
       `PR:<b>|<b>…`               ProcessResponses, b = `holder/sid/dealer.complaint~…`
       `PJ:<b>|<b>…`               ProcessJustifications, b = `dealer/sid/idx.share~…`
       (`-` for an empty bundle list or an empty inner list)
output: per call `<out>#<phase>;<evicted>;<evictedHolders>;<status rows>;<validShares>;<publics>`
       out = `err` | `evicted` | `abort` | `done` | `nothing` | `fail` | `deals:<b>` | `resp:<b|nil>` |
             `just:<b|nil>` | `result:<qual>/<commits>/<I>/<V>`; lists sorted, evicted lists de-duplicated
-/
namespace Kyber.Drive
open Kyber.Dkg

private def b01 (s : String) : Option Bool :=
  if s = "1" then some true else if s = "0" then some false else none

private def sepList (sep : String) (s : String) : List String :=
  if s = "-" then [] else s.splitOn sep

private def parseNodes (s : String) : Option (List NodeId) :=
  (sepList "," s).mapM (fun t => match t.splitOn "." with
    | [a, b] => do pure { index := (← hexN a), pub := (← hexN b) }
    | _ => none)

private def parseCfg (s : String) : Option Cfg :=
  match s.splitOn ";" with
  | [q, old, new, thr, othr, fast, nonce, resh, ci, cr, oidx, nidx, oldT, newT, dpriv, olddpub, fl, fp] => do
    pure { q := (← hexN q), oldNodes := (← parseNodes old), newNodes := (← parseNodes new), threshold := (← hexN thr),
           oldThreshold := (← hexN othr), fastSync := (← b01 fast), nonce := (← hexN nonce), isResharing := (← b01 resh),
           canIssue := (← b01 ci), canReceive := (← b01 cr), oidx := (← hexN oidx), nidx := (← hexN nidx),
           oldT := (← hexN oldT), newT := (← hexN newT), dpriv := (← hexNList dpriv), olddpub := (← hexNList olddpub), fixLeaving := (← b01 fl), fixPhase := (← b01 fp) }
  | _ => none

private def parseDealBundle (s : String) : Option DealBundle :=
  match s.splitOn "/" with
  | [d, sid, pub, ds] => do
    let ds ← (sepList "~" ds).mapM (fun t => match t.splitOn "." with
      | [i, o, v] => do pure ({ shareIndex := (← hexN i), opens := (← b01 o), value := (← hexN v) } : Deal)
      | _ => none)
    pure { dealerIndex := (← hexN d), deals := ds, pub := (← hexNList pub), sid := (← hexN sid) }
  | _ => none

private def parseRespBundle (s : String) : Option ResponseBundle :=
  match s.splitOn "/" with
  | [h, sid, rs] => do
    let rs ← (sepList "~" rs).mapM (fun t => match t.splitOn "." with
      | [d, c] => do pure ({ dealerIndex := (← hexN d), complaint := (← b01 c) } : Response)
      | _ => none)
    pure { shareIndex := (← hexN h), responses := rs, sid := (← hexN sid) }
  | _ => none

private def parseJustBundle (s : String) : Option JustBundle :=
  match s.splitOn "/" with
  | [d, sid, js] => do
    let js ← (sepList "~" js).mapM (fun t => match t.splitOn "." with
      | [i, v] => do pure ({ shareIndex := (← hexN i), share := (← hexN v) } : Justification)
      | _ => none)
    pure { dealerIndex := (← hexN d), justs := js, sid := (← hexN sid) }
  | _ => none

private def insSorted (x : Nat) : List Nat → List Nat
  | [] => [x]
  | y :: ys => if x < y then x :: y :: ys else if x = y then y :: ys else y :: insSorted x ys

private def sortDedup (l : List Nat) : List Nat := l.foldr insSorted []

private def insBy {α : Type} (key : α → Nat) (x : α) : List α → List α
  | [] => [x]
  | y :: ys => if key x ≤ key y then x :: y :: ys else y :: insBy key x ys

private def sortBy {α : Type} (key : α → Nat) (l : List α) : List α := l.foldr (insBy key) []

private def joinOr (sep : String) (l : List String) : String := if l.isEmpty then "-" else sep.intercalate l

private def phaseS : Phase → String
  | .init => "init" | .deal => "deal" | .response => "response" | .justif => "justif" | .finish => "finish"

private def stateS (c : Cfg) (st : St) : String :=
  let olds := sortDedup (c.oldNodes.map (·.index))
  let news := sortDedup (c.newNodes.map (·.index))
  let rows := olds.map (fun d => String.join (news.map (fun h => if st.statuses d h then "1" else "0")))
  let vs := olds.filterMap (fun d => (st.validShares d).map (fun v => natToHex d ++ "=" ++ natToHex v))
  let ps := olds.filter (fun d => (st.allPublics d).isSome)
  s!"{phaseS st.phase};{outNList (olds.filter st.evicted)};{outNList (news.filter st.evictedHolders)};{joinOr "," rows};{joinOr "," vs};{outNList ps}"

private def resultS : Option Result → String
  | none => "fail"
  | some r => s!"result:{outNList (sortDedup r.qual)}/{outNList r.commits}/{natToHex r.shareI}/{natToHex r.shareV}"

private def dealBundleS (b : DealBundle) : String :=
  let ds := (sortBy (fun (d : Deal) => d.shareIndex) b.deals).map (fun d => natToHex d.shareIndex ++ "." ++ natToHex d.value)
  s!"{natToHex b.dealerIndex}/{natToHex b.sid}/{outNList b.pub}/{joinOr "~" ds}"

private def respBundleS (b : ResponseBundle) : String :=
  let rs := (sortBy (fun (r : Response) => r.dealerIndex) b.responses).map
    (fun r => natToHex r.dealerIndex ++ "." ++ (if r.complaint then "1" else "0"))
  s!"{natToHex b.shareIndex}/{natToHex b.sid}/{joinOr "~" rs}"

private def justBundleS (b : JustBundle) : String :=
  let js := (sortBy (fun (j : Justification) => j.shareIndex) b.justs).map
    (fun j => natToHex j.shareIndex ++ "." ++ natToHex j.share)
  s!"{natToHex b.dealerIndex}/{natToHex b.sid}/{joinOr "~" js}"

private def runCalls (c : Cfg) : St → List String → Option (List String)
  | _, [] => some []
  | st, call :: rest =>
    let go (st' : St) (out : String) : Option (List String) :=
      (runCalls c st' rest).map (fun tl => (out ++ "#" ++ stateS c st') :: tl)
    if call = "D" then
      match deals c st with
      | .error _ => go st "err"
      | .ok (st', b) => go st' ("deals:" ++ dealBundleS b)
    else match call.splitOn ":" with
    | ["PD", bs] =>
      match (sepList "|" bs).mapM parseDealBundle with
      | none => none
      | some bs => match processDeals c st bs with
        | .error _ => go st "err"
        | .ok (st', none) => go st' "resp:nil"
        | .ok (st', some b) => go st' ("resp:" ++ respBundleS b)
    | ["PR", bs] =>
      match (sepList "|" bs).mapM parseRespBundle with
      | none => none
      | some bs => match processResponses c st bs with
        | (st', .err _) => go st' "err"
        | (st', .evicted) => go st' "evicted"
        | (st', .result r) => go st' (resultS r)
        | (st', .done) => go st' "done"
        | (st', .justifs none) => go st' "just:nil"
        | (st', .justifs (some b)) => go st' ("just:" ++ justBundleS b)
    | ["PJ", bs] =>
      match (sepList "|" bs).mapM parseJustBundle with
      | none => none
      | some bs => match processJustifications c st bs with
        | (st', .err _) => go st' "err"
        | (st', .evicted) => go st' "evicted"
        | (st', .abort) => go st' "abort"
        | (st', .result r) => go st' (resultS r)
        | (st', .nothing) => go st' "nothing"
    | _ => none

def handleDkg : List String → String
  | cfg :: calls =>
    match parseCfg cfg with
    | none => badOp
    | some c => match runCalls c (initSt c) calls with
      | none => badOp
      | some outs => if outs.isEmpty then "-" else " ".intercalate outs
  | _ => badOp

end Kyber.Drive
