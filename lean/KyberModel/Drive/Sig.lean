import KyberModel.Drive.Common
import KyberModel.Proto.Eddsa
import KyberModel.Proto.Schnorr
import KyberModel.Proto.RingSig
/-
Handler `sig <op> args…` : signature models (C08).
  edkey <seed>                        -> <pub>
  edsign <seed> <msg>                 -> <pub> <sig>          (model of sign/eddsa)
  edrfc <seed> <msg>                  -> <sig>                (RFC 8032 written out)
  edverify <pub> <msg> <sig>          -> ok | err:<class>     (eddsa.VerifyWithChecks)
  goverify <pub> <msg> <sig>          -> true | false         (crypto/ed25519.Verify)
  ptcanon <bytes> | sccanon <bytes>   -> true | false
  smallorder <bytes>                  -> true | false | err:decode   (decode, then HasSmallOrder)
  schnorr-ed-verify <pub> <msg> <sig> -> ok | err:<class>     (schnorr.VerifyWithChecks on Ed25519)
  schnorr-ed-sign <x> <k> <msg>       -> <sig>
  dl-sign <q> <x> <k> <h>             -> <R> <s>
  dl-verify <q> <tag> <pub> <sig> <h> -> ok | err:<class>     (schnorr.VerifyWithChecks on dlgroup)
  ring-verify <q> <ring> <hb|-> <c0> <s,…> <tag|-> <oracle>   -> ok | reject | oracle-miss
  ring-sign <q> <x> <pi> <ring> <hb|-> <u> <s,…> <oracle>     -> <c0> <s,…> <tag|-> | oracle-miss
The oracle is a table `pg:ph:c,…` (`ph` = `-` when unlinkable).
-/
namespace Kyber.Drive
open Kyber

def sigOptN (s : String) : Option (Option Nat) :=
  if s = "-" then some none else (hexN s).map some

def sigOutOptN : Option Nat → String
  | none => "-"
  | some n => outN n

abbrev SigOracleTable := List ((Nat × Option Nat) × Nat)

def sigParseOracle (s : String) : Option SigOracleTable :=
  if s = "-" then some [] else
  (s.splitOn ",").mapM fun e =>
    match e.splitOn ":" with
    | [a, b, c] => do
      let a ← hexN a
      let b ← sigOptN b
      let c ← hexN c
      pure ((a, b), c)
    | _ => none

/-- Table lookup; a missing entry answers `q` (never a valid challenge), and the handlers check
    separately that every query made is in the table. -/
def sigOracleFn (q : Nat) (t : SigOracleTable) : Nat → Option Nat → Nat :=
  fun a b => ((t.find? (fun e => e.1 == (a, b))).map (·.2)).getD q

def sigAllIn (t : SigOracleTable) (qs : List (Nat × Option Nat)) : Bool :=
  qs.all fun k => t.any (fun e => e.1 == k)

def handleRingVerify (q : Nat) (ring : List Nat) (hb : Option Nat) (c0 : Nat) (s : List Nat)
    (tag : Option Nat) (t : SigOracleTable) : String :=
  let H := sigOracleFn q t
  let sig : RingSig.Sig := ⟨c0, s, tag⟩
  let link : RingSig.Link := RingSig.linkOf hb tag
  if s.length = ring.length ∧ hb.isSome = tag.isSome ∧ !sigAllIn t (RingSig.queries q H link c0 (s.zip ring)) then "oracle-miss"
  else if RingSig.verify q H ring hb sig then "ok" else "reject"

def handleRingSign (q x pi : Nat) (ring : List Nat) (hb : Option Nat) (u : Nat) (svals : List Nat)
    (t : SigOracleTable) : String :=
  if pi ≥ ring.length ∨ svals.length ≠ ring.length then badOp else
  let H := sigOracleFn q t
  let sig := RingSig.signAt q H x hb ring pi u svals
  -- every oracle query of Sign: the commitment, then the two partial chains
  let link : RingSig.Link := hb.map fun b => (b, x * b % q)
  let q0 : Nat × Option Nat := (u % q, hb.map fun b => u * b % q)
  let c1 := H q0.1 q0.2
  let after := (svals.drop (pi + 1)).zip (ring.drop (pi + 1))
  let before := (svals.take pi).zip (ring.take pi)
  let qs := q0 :: (RingSig.queries q H link c1 after ++ RingSig.queries q H link sig.c0 before)
  if !sigAllIn t qs then "oracle-miss" else
  s!"{outN sig.c0} {outNList sig.s} {sigOutOptN sig.tag}"

def handleSig : List String → String
  | ["edkey", seed] => match hexB seed with
    | some seed => outB (Eddsa.pubBytes (Eddsa.keygen seed)) | none => badOp
  | ["edsign", seed, msg] => match hexB seed, hexB msg with
    | some seed, some msg =>
      let k := Eddsa.keygen seed
      s!"{outB (Eddsa.pubBytes k)} {outB (Eddsa.signWith k msg)}"
    | _, _ => badOp
  | ["edrfc", seed, msg] => match hexB seed, hexB msg with
    | some seed, some msg => outB (Eddsa.rfcSign seed msg) | _, _ => badOp
  | ["edverify", pub, msg, sig] => match hexB pub, hexB msg, hexB sig with
    | some pub, some msg, some sig => (Eddsa.verify pub msg sig).toString | _, _, _ => badOp
  | ["goverify", pub, msg, sig] => match hexB pub, hexB msg, hexB sig with
    | some pub, some msg, some sig => outBool (Eddsa.goVerify pub msg sig) | _, _, _ => badOp
  | ["ptcanon", b] => match hexB b with
    | some b => outBool (Eddsa.ptIsCanonical b) | none => badOp
  | ["sccanon", b] => match hexB b with
    | some b => outBool (Eddsa.scIsCanonical b) | none => badOp
  | ["smallorder", b] => match hexB b with
    | some b => (match Ed25519.dec b with
        | some P => outBool (Eddsa.hasSmallOrder P)
        | none => "err:decode")
    | none => badOp
  | ["schnorr-ed-verify", pub, msg, sig] => match hexB pub, hexB msg, hexB sig with
    | some pub, some msg, some sig => (Schnorr.verifyEd pub msg sig).toString | _, _, _ => badOp
  | ["schnorr-ed-sign", x, k, msg] => match hexN x, hexN k, hexB msg with
    | some x, some k, some msg => outB (Schnorr.signEd x k msg) | _, _, _ => badOp
  | ["dl-sign", q, x, k, h] => match hexN q, hexN x, hexN k, hexN h with
    | some q, some x, some k, some h =>
      let sg := Schnorr.sign q x k h
      s!"{outN sg.R} {outN sg.s}"
    | _, _, _, _ => badOp
  | ["dl-verify", q, tag, pub, sig, h] => match hexN q, hexN tag, hexB pub, hexB sig, hexN h with
    | some q, some tag, some pub, some sig, some h =>
      (Schnorr.verifyWithChecks (Schnorr.dlgroup q tag) pub sig h).toString
    | _, _, _, _, _ => badOp
  | ["ring-verify", q, ring, hb, c0, s, tag, orc] =>
    match hexN q, hexNList ring, sigOptN hb, hexN c0, hexNList s, sigOptN tag, sigParseOracle orc with
    | some q, some ring, some hb, some c0, some s, some tag, some t => handleRingVerify q ring hb c0 s tag t
    | _, _, _, _, _, _, _ => badOp
  | ["ring-sign", q, x, pi, ring, hb, u, s, orc] =>
    match hexN q, hexN x, hexN pi, hexNList ring, sigOptN hb, hexN u, hexNList s, sigParseOracle orc with
    | some q, some x, some pi, some ring, some hb, some u, some s, some t => handleRingSign q x pi ring hb u s t
    | _, _, _, _, _, _, _, _ => badOp
  | _ => badOp

end Kyber.Drive
