import KyberModel.Drive.Common
import KyberModel.Proto.Share
/-
Handler `share <q> <op> args…` : model of share/poly.go (C07; reused by C09–C13).
Polynomials and commitments are comma lists of hex naturals (`-` = empty); a share slice is a comma
list of `nil` | `<idx>:<val>` | `<idx>:nil`; a base point is a hex discrete log or `nil`.
-/
namespace Kyber.Drive
open Kyber.Share

def shParseShare (s : String) : Option (Option Share) :=
  if s = "nil" then some none else
  match s.splitOn ":" with
  | [i, v] =>
    match hexN i with
    | none => none
    | some i =>
      if v = "nil" then some (some ⟨i, none⟩) else
      match hexN v with
      | some v => some (some ⟨i, some v⟩)
      | none => none
  | _ => none

def shParseShares (s : String) : Option (List (Option Share)) :=
  if s = "-" then some [] else (s.splitOn ",").mapM shParseShare

def shParseBase (s : String) : Option (Option Nat) :=
  if s = "nil" then some none else (hexN s).map some

def shOutOptN : Option Nat → String
  | some v => outN v
  | none => "err"

def shOutOptL : Option (List Nat) → String
  | some l => outNList l
  | none => "err"

def shOutVals (l : List Share) : String :=
  if l.isEmpty then "-" else ",".intercalate (l.map fun s => match s.V with | some v => outN v | none => "nil")

def handleShare : List String → String
  | [qs, "eval", cs, i] => match hexN qs, hexNList cs, hexN i with
    | some q, some cs, some i => shOutVals [eval q cs i] | _, _, _ => badOp
  | [qs, "shares", cs, n] => match hexN qs, hexNList cs, hexN n with
    | some q, some cs, some n => shOutVals (shares q cs n) | _, _, _ => badOp
  | [qs, "pubeval", cs, i] => match hexN qs, hexNList cs, hexN i with
    | some q, some cs, some i => shOutVals [pubEval q cs i] | _, _, _ => badOp
  | [qs, "pubshares", cs, n] => match hexN qs, hexNList cs, hexN n with
    | some q, some cs, some n => shOutVals (pubShares q cs n) | _, _, _ => badOp
  | [qs, "add", p, r] => match hexN qs, hexNList p, hexNList r with
    | some q, some p, some r => shOutOptL (polyAdd q p r) | _, _, _ => badOp
  | [qs, "mul", p, r] => match hexN qs, hexNList p, hexNList r with
    | some q, some p, some r => if p.isEmpty && r.isEmpty then "panic" else outNList (polyMul q p r)
    | _, _, _ => badOp
  | [qs, "commit", cs, b] => match hexN qs, hexNList cs, shParseBase b with
    | some q, some cs, some b => outNList (commit q cs b) | _, _, _ => badOp
  | [qs, "check", cs, b, i, v] => match hexN qs, hexNList cs, shParseBase b, hexN i, hexN v with
    | some q, some cs, some b, some i, some v => outBool (check q cs b i v) | _, _, _, _, _ => badOp
  | [qs, "recsecret", t, sh] => match hexN qs, hexN t, shParseShares sh with
    | some q, some t, some sh => shOutOptN (recoverSecret q sh t) | _, _, _ => badOp
  | [qs, "reccommit", t, sh] => match hexN qs, hexN t, shParseShares sh with
    | some q, some t, some sh => shOutOptN (recoverCommit q sh t) | _, _, _ => badOp
  | [qs, "recpripoly", t, sh] => match hexN qs, hexN t, shParseShares sh with
    | some q, some t, some sh => shOutOptL (recoverPriPoly q sh t) | _, _, _ => badOp
  | [qs, "recpubpoly", t, sh] => match hexN qs, hexN t, shParseShares sh with
    | some q, some t, some sh => shOutOptL (recoverPubPoly q sh t) | _, _, _ => badOp
  | [qs, "xy", t, sh] => match hexN qs, hexN t, shParseShares sh with
    | some _, some t, some sh =>
      let m := xy sh t
      if m.isEmpty then "-" else ",".intercalate (m.map fun e => s!"{outN e.1}:{outN e.2}")
    | _, _, _ => badOp
  | _ => badOp

end Kyber.Drive
