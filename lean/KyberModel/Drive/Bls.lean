import KyberModel.Drive.Common
import KyberModel.Drive.Mask
import KyberModel.Proto.Bls
/-
Driver handler for C09: `c09 bls …`, `c09 mask …`, `c09 cosi …`.

`bls pub <q> <x>` · `bls sign <q> <x> <h>` · `bls verify <q> <g1|g2> <X> <h> <sig|x>`
`bls pubshare <q> <commits> <i>` · `bls vpartial <q> <sg> <commits> <h> <idx|x>:<val|x>`
`bls recover <q> <sg> <commits> <h> <t> <partial,partial,…>` → `<as coded> <with the repair>`, each `ok:<hex>` or `e`
-/
namespace Kyber.Drive.C09
open Kyber.Drive Kyber.Bls

def parseSg (s : String) : Option SigGroup :=
  if s = "g1" then some .g1 else if s = "g2" then some .g2 else none

def parsePartial (s : String) : Option Partial :=
  match s.splitOn ":" with
  | [i, v] => do
      let i ← optN i; let v ← optN v
      pure ⟨i, v⟩
  | _ => none

def parsePartials (s : String) : Option (List Partial) :=
  if s = "-" then some [] else (s.splitOn ",").mapM parsePartial

def outOptN : Option Nat → String
  | some v => "ok:" ++ outN v
  | none => "e"

def handleBls : List String → String
  | ["pub", qs, x] => match hexN qs, hexN x with
    | some q, some x => outN (publicKey q x) | _, _ => badOp
  | ["sign", qs, x, h] => match hexN qs, hexN x, hexN h with
    | some q, some x, some h => outN (sign q x h) | _, _, _ => badOp
  | ["verify", qs, sg, X, h, sig] => match hexN qs, parseSg sg, hexN X, hexN h, optN sig with
    | some q, some sg, some X, some h, some sig => outBool (verify q sg X h sig)
    | _, _, _, _, _ => badOp
  | ["pubshare", qs, cs, i] => match hexN qs, hexNList cs, hexN i with
    | some q, some cs, some i => outN (pubShare q cs i) | _, _, _ => badOp
  | ["vpartial", qs, sg, cs, h, p] => match hexN qs, parseSg sg, hexNList cs, hexN h, parsePartial p with
    | some q, some sg, some cs, some h, some p => outBool (verifyPartial q sg cs h p)
    | _, _, _, _, _ => badOp
  | ["recover", qs, sg, cs, h, t, ps] =>
    match hexN qs, parseSg sg, hexNList cs, hexN h, hexN t, parsePartials ps with
    | some q, some sg, some cs, some h, some t, some ps =>
      outOptN (recover q sg cs h ps t) ++ " " ++ outOptN (recoverFixed q sg cs h ps t)
    | _, _, _, _, _, _ => badOp
  | _ => badOp

end Kyber.Drive.C09

namespace Kyber.Drive

def handleC09 : List String → String
  | "bls" :: args => C09.handleBls args
  | "mask" :: args => C09.handleMask args
  | "cosi" :: args => C09.handleCosi args
  | _ => badOp

end Kyber.Drive
