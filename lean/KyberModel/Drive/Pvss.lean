import KyberModel.Drive.Common
import KyberModel.Proto.Pvss
/-
Handler `pvss <q> <op> args…` : model of proof/dleq/dleq.go and share/pvss/pvss.go (C13).
A proof is `C:R:VG:VH`, a PubVerShare is `I:V:C:R:VG:VH` (hex naturals; points are discrete logs);
lists are comma separated, `-` is the empty list; `bind` is `0` (code as it stands) or `1` (index check).
-/
namespace Kyber.Drive
open Kyber.Pvss

def pvParseProof (s : String) : Option Proof :=
  match (s.splitOn ":").mapM hexN with
  | some [c, r, vg, vh] => some ⟨c, r, vg, vh⟩
  | _ => none

def pvParseShare (s : String) : Option PVShare :=
  match (s.splitOn ":").mapM hexN with
  | some [i, v, c, r, vg, vh] => some ⟨i, v, ⟨c, r, vg, vh⟩⟩
  | _ => none

def pvParseShares (s : String) : Option (List PVShare) :=
  if s = "-" then some [] else (s.splitOn ",").mapM pvParseShare

def pvOutProof (p : Proof) : String := s!"{outN p.C}:{outN p.R}:{outN p.VG}:{outN p.VH}"
def pvOutShare (e : PVShare) : String := s!"{outN e.I}:{outN e.V}:{pvOutProof e.P}"
def pvOutList (l : List String) : String := if l.isEmpty then "-" else ",".intercalate l

def pvBind (s : String) : Option Bool := if s = "0" then some false else if s = "1" then some true else none

def handlePvss : List String → String
  | [qs, "dleqprove", g, h, x, v, c] => match hexN qs, hexN g, hexN h, hexN x, hexN v, hexN c with
    | some q, some g, some h, some x, some v, some c =>
      let r := dleqProve q g h x v c
      s!"{pvOutProof r.1} {outN r.2.1} {outN r.2.2}"
    | _, _, _, _, _, _ => badOp
  | [qs, "dleqverify", p, g, h, xG, xH] => match hexN qs, pvParseProof p, hexN g, hexN h, hexN xG, hexN xH with
    | some q, some p, some g, some h, some xG, some xH => outBool (dleqVerify q p g h xG xH)
    | _, _, _, _, _, _ => badOp
  | [qs, "dleqbatch", gs, hs, xs, vs, c] => match hexN qs, hexNList gs, hexNList hs, hexNList xs, hexNList vs, hexN c with
    | some q, some gs, some hs, some xs, some vs, some c =>
      (match dleqProveBatch q gs hs xs vs c with
       | none => "err"
       | some (ps, xG, xH) => s!"{pvOutList (ps.map pvOutProof)} {outNList xG} {outNList xH}")
    | _, _, _, _, _, _ => badOp
  | [qs, "enc", h, xs, cs, vs, c] => match hexN qs, hexN h, hexNList xs, hexNList cs, hexNList vs, hexN c with
    | some q, some h, some xs, some cs, some vs, some c =>
      (match encShares q h xs cs vs c with
       | none => "err"
       | some (es, commits) => s!"{pvOutList (es.map pvOutShare)} {outNList commits}")
    | _, _, _, _, _, _ => badOp
  | [qs, "verifyenc", h, x, sH, expC, e] => match hexN qs, hexN h, hexN x, hexN sH, hexN expC, pvParseShare e with
    | some q, some h, some x, some sH, some expC, some e => outBool (verifyEncShare q h x sH expC e)
    | _, _, _, _, _, _ => badOp
  | [qs, "verifyencbatch", b, h, xs, sHs, es, chal] =>
    match hexN qs, pvBind b, hexN h, hexNList xs, hexNList sHs, pvParseShares es, hexN chal with
    | some q, some b, some h, some xs, some sHs, some es, some chal =>
      (match verifyEncShareBatch b q h xs sHs es chal with
       | none => "err"
       | some r => outNList r)
    | _, _, _, _, _, _, _ => badOp
  | [qs, "dec", h, X, sH, x, expC, e, v, c] =>
    match hexN qs, hexN h, hexN X, hexN sH, hexN x, hexN expC, pvParseShare e, hexN v, hexN c with
    | some q, some h, some X, some sH, some x, some expC, some e, some v, some c =>
      (match decShare q h X sH x expC e v c with
       | none => "err"
       | some d => pvOutShare d)
    | _, _, _, _, _, _, _, _, _ => badOp
  | [qs, "decbatch", h, xs, sHs, x, expCs, es, vs, cs] =>
    match hexN qs, hexN h, hexNList xs, hexNList sHs, hexN x, hexNList expCs, pvParseShares es, hexNList vs, hexNList cs with
    | some q, some h, some xs, some sHs, some x, some expCs, some es, some vs, some cs =>
      if expCs.length < es.length then "panic" else
      (match decShareBatch q h xs sHs x expCs es vs cs with
       | none => "err"
       | some r => s!"{outNList (r.map (·.1))} {pvOutList (r.map fun p => pvOutShare p.2)}")
    | _, _, _, _, _, _, _, _, _ => badOp
  | [qs, "verifydec", b, g, X, e, d, chal] =>
    match hexN qs, pvBind b, hexN g, hexN X, pvParseShare e, pvParseShare d, hexN chal with
    | some q, some b, some g, some X, some e, some d, some chal => outBool (verifyDecShare b q g X e d chal)
    | _, _, _, _, _, _, _ => badOp
  | [qs, "verifydecbatch", b, g, xs, es, ds, chals] =>
    match hexN qs, pvBind b, hexN g, hexNList xs, pvParseShares es, pvParseShares ds, hexNList chals with
    | some q, some b, some g, some xs, some es, some ds, some chals =>
      (match verifyDecShareBatch b q g xs es ds chals with
       | none => "err"
       | some r => outNList r)
    | _, _, _, _, _, _, _ => badOp
  | [qs, "recover", b, g, xs, es, ds, chals, t] =>
    match hexN qs, pvBind b, hexN g, hexNList xs, pvParseShares es, pvParseShares ds, hexNList chals, hexN t with
    | some q, some b, some g, some xs, some es, some ds, some chals, some t =>
      (match recoverSecret b q g xs es ds chals t with
       | none => "err"
       | some r => outN r)
    | _, _, _, _, _, _, _, _ => badOp
  | _ => badOp

end Kyber.Drive
