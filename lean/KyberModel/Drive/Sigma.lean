import KyberModel.Drive.Common
import KyberModel.Proto.Sigma
/-
Handler `sigma <op> …` : sigma-protocol proofs (C14), `Kyber.Sigma` over the mock encoding.

Predicates are written in prefix form as a comma-separated list of hex naturals:
  rep : 0,P,k,s1,b1,…,sk,bk      and : 1,n,sub1,…,subn      or : 2,n,sub1,…,subn
Scalar / point variables are indices into the `svals` / `pvals` lists.

  sigma prove   <q> <pred> <svals> <pvals> <choice> <rnd> <chal>      -> ok <proof> | err:<class>
  sigma verify  <q> <pred> <pvals> <proof> <chal>                      -> accept | reject:<class>
  sigma dprove  <q> <pred> <svals> <pvals> <choice> <rnd> <chal>      -> ok <m1> <m2> | err:<class>
  sigma dverify <q> <pred> <pvals> <m1> <m2> <chal>                    -> accept | reject:<class>
  sigma vars    <pred>                                                 -> scalar variables in index order
`rnd` is the list of private random scalars in the order drawn; a run that does not draw exactly
`rnd.length` scalars is answered `bad-op`. `chal` is the value returned by the single `PubRand`.
-/
namespace Kyber.Drive
open Kyber.Sigma

def parseTerms : Nat → List Nat → Option (List Term × List Nat)
  | 0, l => some ([], l)
  | k + 1, s :: b :: l => match parseTerms k l with
    | some (ts, l') => some (⟨s, b⟩ :: ts, l')
    | none => none
  | _ + 1, _ => none

mutual
def parsePred : Nat → List Nat → Option (Pred × List Nat)
  | 0, _ => none
  | _ + 1, 0 :: p :: k :: l => match parseTerms k l with
    | some (ts, l') => some (.rep p ts, l')
    | none => none
  | f + 1, 1 :: n :: l => match parsePreds f n l with
    | some (ps, l') => some (.and ps, l')
    | none => none
  | f + 1, 2 :: n :: l => match parsePreds f n l with
    | some (ps, l') => some (.or ps, l')
    | none => none
  | _ + 1, _ => none
def parsePreds : Nat → Nat → List Nat → Option (List Pred × List Nat)
  | 0, _, _ => none
  | _ + 1, 0, l => some ([], l)
  | f + 1, n + 1, l => match parsePred f l with
    | some (p, l') => match parsePreds f n l' with
      | some (ps, l'') => some (p :: ps, l'')
      | none => none
    | none => none
end

def predOf (s : String) : Option Pred :=
  match hexNList s with
  | some l => match parsePred (l.length + 1) l with
    | some (p, []) => some p
    | _ => none
  | none => none

/-- Largest scalar-variable and point-variable names used, plus one. -/
def termsBound : List Term → Nat × Nat → Nat × Nat
  | [], a => a
  | t :: ts, a => termsBound ts (max a.1 (t.s + 1), max a.2 (t.b + 1))
mutual
def predBound : Pred → Nat × Nat → Nat × Nat
  | .rep p ts, a => termsBound ts (a.1, max a.2 (p + 1))
  | .and ps, a => predsBound ps a
  | .or ps, a => predsBound ps a
def predsBound : List Pred → Nat × Nat → Nat × Nat
  | [], a => a
  | p :: ps, a => predsBound ps (predBound p a)
end

def errName : Err → String
  | .orInAnd => "or-in-and" | .noChoice => "no-choice" | .orNested => "or-nested" | .eof => "eof"
  | .decode => "decode" | .commitMismatch => "commit-mismatch" | .badSubChallenges => "bad-sub-challenges"
  | .panic => "panic" | .internal => "internal"

def mkParams (q : Nat) (p : Pred) (pvals : List Nat) (c : Nat) : Params :=
  { q := q, cd := mockCodec q, name := [], O := fun _ _ _ => c, sv := svars p, pval := fun i => pvals.getD i 0 }

/-- Number of private random scalars the prover drew. -/
def drawsOf (E : Params) (rnd : Nat → Nat) (p : Pred) (ch : List Nat) : Nat :=
  match commit E rnd p none none ch PCtx.init with
  | .ok (st, _, _) => st.k
  | .error _ => 0

def handleSigma : List String → String
  | ["vars", ps] => match predOf ps with
    | some p => outNList (svars p)
    | none => badOp
  | [op, qs, ps, svs, pvs, chs, rs, cs] =>
    match hexN qs, predOf ps, hexNList svs, hexNList pvs, hexNList chs, hexNList rs, hexN cs with
    | some q, some p, some svals, some pvals, some ch, some rl, some c =>
      let b := predBound p (0, 0)
      if q < 2 ∨ b.1 > svals.length ∨ b.2 > pvals.length then badOp else
      let E := mkParams q p pvals c
      let rnd := fun i => rl.getD i 0
      let sval := fun i => svals.getD i 0
      if op = "prove" then
        match hashProve E sval rnd p ch with
        | .ok pr => if drawsOf E rnd p ch = rl.length then s!"ok {outB pr}" else badOp
        | .error e => s!"err:{errName e}"
      else if op = "dprove" then
        match dProve E sval rnd p ch c with
        | .ok (m1, m2) => if drawsOf E rnd p ch = rl.length then s!"ok {outB m1} {outB m2}" else badOp
        | .error e => s!"err:{errName e}"
      else badOp
    | _, _, _, _, _, _, _ => badOp
  | ["verify", qs, ps, pvs, prs, cs] =>
    match hexN qs, predOf ps, hexNList pvs, hexB prs, hexN cs with
    | some q, some p, some pvals, some pr, some c =>
      let b := predBound p (0, 0)
      if q < 2 ∨ b.2 > pvals.length then badOp else
      match hashVerify (mkParams q p pvals c) p pr with
      | .ok _ => "accept"
      | .error e => s!"reject:{errName e}"
    | _, _, _, _, _ => badOp
  | ["dverify", qs, ps, pvs, m1s, m2s, cs] =>
    match hexN qs, predOf ps, hexNList pvs, hexB m1s, hexB m2s, hexN cs with
    | some q, some p, some pvals, some m1, some m2, some c =>
      let b := predBound p (0, 0)
      if q < 2 ∨ b.2 > pvals.length then badOp else
      match dVerify (mkParams q p pvals c) p m1 m2 c with
      | .ok _ => "accept"
      | .error e => s!"reject:{errName e}"
    | _, _, _, _, _, _ => badOp
  | _ => badOp

end Kyber.Drive
