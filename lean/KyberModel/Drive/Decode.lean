import KyberModel.Drive.Common
import KyberModel.Groups.Decode
import KyberModel.Groups.BlsG2
/-
Handlers (C04):
  `dec <group> [params] <bytes>`          → `err` | `ok <canonical re-encoding>`
  `decsc <kind> [params] <bytes>`         → `err` | `ok <value>`
  `parse <format> <lengths…> <bytes>`     → `err` | `ok <part> <part> …`
-/
namespace Kyber.Drive
open Kyber

def outOpt {α : Type} (enc : α → Bytes) : Option α → String
  | none => "err"
  | some v => "ok " ++ outB (enc v)

def handleDec : List String → String
  | ["ed25519", b] => match hexB b with
    | some b => outOpt Ed25519.enc (Ed25519.dec b) | none => badOp
  | ["ed25519vt", b] => match hexB b with
    | some b => outOpt Ed25519Vt.enc (Ed25519Vt.dec b) | none => badOp
  | ["p256", b] => match hexB b with
    | some b => outOpt P256.enc (P256.dec b) | none => badOp
  | ["bn256g1", b] => match hexB b with
    | some b => outOpt BN256.enc (BN256.dec b) | none => badOp
  | ["bn254g1", b] => match hexB b with
    | some b => outOpt BN254.enc (BN254.dec b) | none => badOp
  | ["bn256g2", b] => match hexB b with
    | some b => outOpt Fp2.enc (BN256.decG2 b) | none => badOp
  | ["bn254g2", b] => match hexB b with
    | some b => outOpt Fp2.enc (BN254.decG2 b) | none => badOp
  | ["bls12381g2", b] => match hexB b with
    | some b => outOpt BLS12381.encG2 (BLS12381.decG2 b) | none => badOp
  | ["bls12381g1", b] => match hexB b with
    | some b => outOpt BLS12381.enc (BLS12381.dec b) | none => badOp
  | ["bls12381g1-circl", b] => match hexB b with
    | some b => outOpt BLS12381.enc (BLS12381.decLenient false b) | none => badOp
  | ["bls12381g1-gnark", b] => match hexB b with
    | some b => outOpt BLS12381.enc (BLS12381.decLenient true b) | none => badOp
  | ["residue", P, Q, b] => match hexN P, hexN Q, hexB b with
    | some P, some Q, some b => outOpt (Residue.enc P) (Residue.dec P Q b) | _, _, _ => badOp
  | _ => badOp

def outOptN : Option Nat → String
  | none => "err"
  | some v => "ok " ++ outN v

def handleDecSc : List String → String
  | ["modint", q, bo, b] => match hexN q, hexB b with
    | some q, some b =>
      if bo = "le" then outOptN (Scalar.decBounded q (Scalar.modIntLen q) true true b)
      else if bo = "be" then outOptN (Scalar.decBounded q (Scalar.modIntLen q) false true b)
      else badOp
    | _, _ => badOp
  | ["circl", q, b] => match hexN q, hexB b with
    | some q, some b => outOptN (Scalar.decBounded q 32 false false b) | _, _ => badOp
  | ["ed25519", b] => match hexB b with
    | some b => outOptN ((Scalar.decEd b).map (· % Ed25519.L)) | none => badOp
  | ["gnark", q, b] => match hexN q, hexB b with
    | some q, some b => outOptN (Scalar.decGnark q b) | _, _ => badOp
  | _ => badOp

def handleParse : List String → String
  | ["exact", n, m, b] => match hexN n, hexN m, hexB b with
    | some n, some m, some b => (match Composite.splitExact n m b with
      | none => "err" | some (x, y) => s!"ok {outB x} {outB y}")
    | _, _, _ => badOp
  | ["cosi", n, m, k, b] => match hexN n, hexN m, hexN k, hexB b with
    | some n, some m, some k, some b => (match Composite.splitCosi n m k b with
      | none => "err" | some (x, y, z) => s!"ok {outB x} {outB y} {outB z}")
    | _, _, _, _ => badOp
  | ["prefix", n, b] => match hexN n, hexB b with
    | some n, some b => (match Composite.splitPrefix n b with
      | none => "err" | some (x, y) => s!"ok {outB x} {outB y}")
    | _, _ => badOp
  | ["ring", l, n, m, k, b] => match hexN l, hexN n, hexN m, hexN k, hexB b with
    | some l, some n, some m, some k, some b => (match Composite.splitRing (l = 1) n m k b with
      | none => "err"
      | some (t, c0, ss) => s!"ok {outB t} {outB c0} {",".intercalate (ss.map outB)}")
    | _, _, _, _, _ => badOp
  | _ => badOp

end Kyber.Drive
