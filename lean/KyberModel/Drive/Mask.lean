import KyberModel.Drive.Common
import KyberModel.Proto.Mask
import KyberModel.Proto.Cosi
import KyberModel.Proto.Bls
/-
Driver handlers for the participation masks and CoSi (C09).

`mask bdn <q> <fixed 0|1> <pubs> <coefs|x> <op;op;…>`   BDN mask history incl. aggregation, one result per op
`mask cosi <q> <pubs> <own|x> <op;op;…>`                CoSi mask history (first result: NewMask)
`mask aggmasks <a> <b>`
`cosi commit|response|aggresp|aggcommit|verify …`

Fields of an op are separated by `:`, list elements by `,`; `x` is "absent".
-/
namespace Kyber.Drive.C09
open Kyber.Drive Kyber.Mask Kyber.Cosi Kyber.Bls

def optN (s : String) : Option (Option Nat) :=
  if s = "x" then some none else (hexN s).map some

def optNList (s : String) : Option (List (Option Nat)) :=
  if s = "-" then some [] else (s.splitOn ",").mapM optN

def bool01 (s : String) : Option Bool :=
  if s = "1" then some true else if s = "0" then some false else none

def byteOf (s : String) : Option UInt8 :=
  match hexN s with
  | some v => if v < 256 then some (UInt8.ofNat v) else none
  | none => none

/-- Script operation: a mask operation or one of the two BDN aggregations over a mask. -/
inductive SOp
  | m (op : Mask.Op)
  | aggSig (m : Nat) (sigs : List (Option Nat))
  | aggPub (m : Nat)

def parseSOp (s : String) : Option SOp :=
  match s.splitOn ":" with
  | ["new", k] => (optN k).map (fun o => .m (.newMask o))
  | ["buf", b] => (hexB b).map (fun b => .m (.newBuf b))
  | ["poke", b, i, v] => do
      let b ← parseNat? b; let i ← parseNat? i; let v ← byteOf v
      pure (.m (.poke b i v))
  | ["setmask", m, b] => do
      let m ← parseNat? m; let b ← parseNat? b
      pure (.m (.setMask m b))
  | ["merge", m, b] => do
      let m ← parseNat? m; let b ← parseNat? b
      pure (.m (.merge m b))
  | ["setbit", m, i, e] => do
      let m ← parseNat? m; let i ← parseInt? i; let e ← bool01 e
      pure (.m (.setBit m i e))
  | ["clone", m] => (parseNat? m).map (fun m => .m (.clone m))
  | ["getbit", m, i] => do
      let m ← parseNat? m; let i ← parseInt? i
      pure (.m (.getBit m i))
  | ["mask", m] => (parseNat? m).map (fun m => .m (.maskBytes m))
  | ["cnt", m] => (parseNat? m).map (fun m => .m (.countEnabled m))
  | ["tot", m] => (parseNat? m).map (fun m => .m (.countTotal m))
  | ["len", m] => (parseNat? m).map (fun m => .m (.len m))
  | ["nth", m, k] => do
      let m ← parseNat? m; let k ← parseInt? k
      pure (.m (.indexOfNth m k))
  | ["at", m, k] => do
      let m ← parseNat? m; let k ← parseInt? k
      pure (.m (.nthAt m k))
  | ["parts", m] => (parseNat? m).map (fun m => .m (.participants m))
  | ["rbuf", b] => (parseNat? b).map (fun b => .m (.readBuf b))
  | ["aggsig", m, sigs] => do
      let m ← parseNat? m; let sigs ← optNList sigs
      pure (.aggSig m sigs)
  | ["aggpub", m] => (parseNat? m).map (fun m => .aggPub m)
  | _ => none

def outOut : Mask.Out → String
  | .unit => "u" | .err => "e" | .bad => "bad"
  | .bool b => if b then "t" else "f"
  | .int i => toString i
  | .bytes b => outB b
  | .nats l => outNList l
  | .hasCoefs b => if b then "c1" else "c0"

def outRes : Bls.Res Nat → String
  | .ok v => "ok:" ++ outN v
  | .err => "e"
  | .panic => "panic"

/-- Run a script on the heap; aggregations read the mask's buffer and its `hasCoefs` flag. -/
def runScript (q : Nat) (fixed : Bool) (pubs coefs : List Nat) : Heap → List SOp → List String
  | _, [] => []
  | h, .m op :: rest =>
    let r := Mask.step pubs fixed h op
    outOut r.2 :: runScript q fixed pubs coefs r.1 rest
  | h, .aggSig m sigs :: rest =>
    let o := match h.masks[m]?, h.maskBuf m with
      | some mo, some buf =>
        outRes (aggregateSignatures q pubs.length (bit buf) (if mo.hasCoefs then some coefs else none) sigs)
      | _, _ => "bad"
    o :: runScript q fixed pubs coefs h rest
  | h, .aggPub m :: rest =>
    let o := match h.masks[m]?, h.maskBuf m with
      | some mo, some buf =>
        outRes (aggregatePublicKeys q pubs.length (bit buf)
          (if mo.hasCoefs then some (publicTerms q pubs coefs) else none))
      | _, _ => "bad"
    o :: runScript q fixed pubs coefs h rest

def parseCOp (s : String) : Option COp :=
  match s.splitOn ":" with
  | ["setbit", i, e] => do
      let i ← parseNat? i; let e ← bool01 e
      pure (.setBit i e)
  | ["setmask", b] => (hexB b).map .setMask
  | ["idx", i] => (parseNat? i).map .indexEnabled
  | ["key", k] => (hexN k).map .keyEnabled
  | ["cnt"] => some .countEnabled
  | ["tot"] => some .countTotal
  | ["len"] => some .len
  | ["mask"] => some .maskBytes
  | ["agg"] => some .aggregate
  | _ => none

def outCOut : COut → String
  | .unit => "u" | .err => "e"
  | .bool b => if b then "t" else "f"
  | .nat n => outN n
  | .bytes b => outB b

def splitOps (s : String) : List String := if s = "-" then [] else s.splitOn ";"

def handleMask : List String → String
  | ["bdn", qs, fx, pubs, coefs, ops] =>
    match hexN qs, bool01 fx, hexNList pubs, (if coefs = "x" then some [] else hexNList coefs),
          (splitOps ops).mapM parseSOp with
    | some q, some fixed, some pubs, some coefs, some ops =>
      let outs := runScript q fixed pubs coefs Heap.empty ops
      if outs.isEmpty then "-" else ";".intercalate outs
    | _, _, _, _, _ => badOp
  | ["cosi", qs, pubs, own, ops] =>
    match hexN qs, hexNList pubs, optN own, (splitOps ops).mapM parseCOp with
    | some q, some pubs, some own, some ops =>
      match CMask.new q pubs own with
      | none => "e"
      | some c => ";".intercalate ("u" :: (crun q pubs c ops).2.map outCOut)
    | _, _, _, _ => badOp
  | ["aggmasks", a, b] =>
    match hexB a, hexB b with
    | some a, some b => (match aggregateMasks a b with | none => "e" | some m => outB m)
    | _, _ => badOp
  | _ => badOp

def parsePolicy (s : String) : Option Policy :=
  match s.splitOn ":" with
  | ["n"] => some .none
  | ["c"] => some .complete
  | ["t", v] => (parseInt? v).map .threshold
  | _ => none

def outVerdict : Verdict → String
  | .ok => "ok" | .errShort => "short" | .errPoint => "point" | .errMaskLen => "masklen"
  | .errEquation => "eq" | .errPolicy => "policy"

/-- `a,b,c` list of byte strings (`-` for an empty string; the empty list is written `x`). -/
def hexBList (s : String) : Option (List Bytes) :=
  if s = "x" then some [] else (s.splitOn ",").mapM hexB

def handleCosi : List String → String
  | ["commit", qs, v] => match hexN qs, hexN v with
    | some q, some v => outN (commit q v) | _, _ => badOp
  | ["response", qs, a, v, c] => match hexN qs, hexN a, hexN v, hexN c with
    | some q, some a, some v, some c => outN (response q a v c) | _, _, _, _ => badOp
  | ["aggresp", qs, rs] => match hexN qs, hexNList rs with
    | some q, some rs => outN (aggregateResponses q rs) | _, _ => badOp
  | ["aggcommit", qs, vs, ms] => match hexN qs, hexNList vs, hexBList ms with
    | some q, some vs, some ms =>
      (match aggregateCommitments q vs ms with
       | .ok V m => s!"ok:{outN V}:{outB m}" | .err => "e" | .panic => "panic")
    | _, _, _ => badOp
  | ["verify", qs, pubs, pl, sl, len, V, r, mask, c, pol] =>
    match hexN qs, hexNList pubs, parseNat? pl, parseNat? sl, parseNat? len, optN V, hexN r, hexB mask,
          hexN c, parsePolicy pol with
    | some q, some pubs, some pl, some sl, some len, some V, some r, some mask, some c, some pol =>
      outVerdict (Cosi.verify q pubs pl sl ⟨len, V, r, mask⟩ c pol)
    | _, _, _, _, _, _, _, _, _, _ => badOp
  | _ => badOp

end Kyber.Drive.C09
