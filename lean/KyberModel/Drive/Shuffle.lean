import KyberModel.Drive.Common
import KyberModel.Drive.Sigma
import KyberModel.Proto.Shuffle
/-
Handler `shuffle <op> …` : verifiable shuffles (C15), `Kyber.Shuffle` over the mock encoding.

  shuffle sprove  <q> <k> <g> <gamma> <x> <y> <rnd> <rounds>                        -> ok <proof>
  shuffle sverify <q> <k> <g> <Gamma> <proof> <rounds>                              -> accept <X> <Y> | reject:<class>
  shuffle pprove  <q> <k> <g> <h> <pi> <beta> <X> <Y> <rnd> <rounds>                -> ok <proof>
  shuffle pverify <q> <k> <g> <h> <X> <Y> <Xbar> <Ybar> <bound:0|1> <proof> <rounds> -> accept | reject:<class>
  shuffle seq     <q> <k> <nq> <e> <P>        (P = nq rows of k values, concatenated) -> combined row
  shuffle bprove  <q> <g> <h> <X> <Y> <Xbar> <Ybar> <beta> <bit> <rnd> <chal>        -> ok <proof> | err:<class>
  shuffle bverify <q> <g> <h> <X> <Y> <Xbar> <Ybar> <proof> <chal>                  -> accept | reject:<class>

Vectors are comma-separated hex lists of exactly `k` entries. `rnd` are the private random scalars in
the order drawn (2k-1 for the simple shuffle, 5k+2 for the pair shuffle). `rounds` are the public
random scalars per `PubRand` round, rounds separated by `/`.
-/
namespace Kyber.Drive
open Kyber.Sigma Kyber.Shuffle

def parseRounds (s : String) : Option (List (List Nat)) :=
  if s = "-" then some [] else (s.splitOn "/").mapM hexNList

def shParams (q : Nat) (rounds : List (List Nat)) : Params :=
  { q := q, cd := mockCodec q, name := [],
    O := fun _ hist pos => (rounds.getD (hist.length - 1) []).getD pos 0, sv := [], pval := fun _ => 0 }

def shErrName : ShErr → String
  | .parse e => errName e
  | .simple => "simple"
  | .unbound => "unbound"
  | .pair => "pair"

def handleShuffle : List String → String
  | ["sprove", qs, ks, gs, gms, xs, ys, rs, rds] =>
    match hexN qs, hexN ks, hexN gs, hexN gms, hexNList xs, hexNList ys, hexNList rs, parseRounds rds with
    | some q, some k, some g, some γ, some x, some y, some rl, some rounds =>
      if q < 2 ∨ k < 2 ∨ x.length ≠ k ∨ y.length ≠ k ∨ rl.length ≠ 2 * k - 1 then badOp else
      s!"ok {outB (simpleProve (shParams q rounds) k g γ (ofList x) (ofList y) (ofList rl))}"
    | _, _, _, _, _, _, _, _ => badOp
  | ["sverify", qs, ks, gs, gms, prs, rds] =>
    match hexN qs, hexN ks, hexN gs, hexN gms, hexB prs, parseRounds rds with
    | some q, some k, some g, some Γ, some pr, some rounds =>
      if q < 2 ∨ k < 2 then badOp else
      match simpleVerify (shParams q rounds) k g Γ pr with
      | .ok v => s!"accept {outNList (vec k v.X)} {outNList (vec k v.Y)}"
      | .error e => s!"reject:{shErrName e}"
    | _, _, _, _, _, _ => badOp
  | ["pprove", qs, ks, gs, hs, pis, bs, xs, ys, rs, rds] =>
    match hexN qs, hexN ks, hexN gs, hexN hs, hexNList pis, hexNList bs, hexNList xs, hexNList ys, hexNList rs,
        parseRounds rds with
    | some q, some k, some g, some h, some pi, some beta, some x, some y, some rl, some rounds =>
      if q < 2 ∨ k < 2 ∨ pi.length ≠ k ∨ beta.length ≠ k ∨ x.length ≠ k ∨ y.length ≠ k ∨ rl.length ≠ 5 * k + 2
          ∨ pi.any (· ≥ k) then badOp else
      s!"ok {outB (pairProve (shParams q rounds) k g h (ofList pi) (ofList beta) (ofList x) (ofList y) (ofList rl))}"
    | _, _, _, _, _, _, _, _, _, _ => badOp
  | ["pverify", qs, ks, gs, hs, xs, ys, xbs, ybs, bd, prs, rds] =>
    match hexN qs, hexN ks, hexN gs, hexN hs, hexNList xs, hexNList ys, hexNList xbs, hexNList ybs, hexB prs,
        parseRounds rds with
    | some q, some k, some g, some h, some x, some y, some xb, some yb, some pr, some rounds =>
      if q < 2 ∨ k < 2 ∨ x.length ≠ k ∨ y.length ≠ k ∨ xb.length ≠ k ∨ yb.length ≠ k ∨ (bd ≠ "0" ∧ bd ≠ "1") then badOp else
      match pairVerify (shParams q rounds) k g h (ofList x) (ofList y) (ofList xb) (ofList yb) (bd == "1") pr with
      | .ok _ => "accept"
      | .error e => s!"reject:{shErrName e}"
    | _, _, _, _, _, _, _, _, _, _ => badOp
  | ["seq", qs, ks, nqs, es, ps] =>
    match hexN qs, hexN ks, hexN nqs, hexNList es, hexNList ps with
    | some q, some k, some nq, some e, some p =>
      if q < 2 ∨ nq < 1 ∨ e.length ≠ nq ∨ p.length ≠ nq * k then badOp else
      outNList (vec k (seqCombine q nq (ofList e) (fun j i => p.getD (j * k + i) 0)))
    | _, _, _, _, _ => badOp
  | ["bprove", qs, gs, hs, xs, ys, xbs, ybs, bs, bits, rs, cs] =>
    match hexN qs, hexN gs, hexN hs, hexNList xs, hexNList ys, hexNList xbs, hexNList ybs, hexNList bs, hexN bits,
        hexNList rs, hexN cs with
    | some q, some g, some h, some x, some y, some xb, some yb, some beta, some bit, some rl, some c =>
      if q < 2 ∨ x.length ≠ 2 ∨ y.length ≠ 2 ∨ xb.length ≠ 2 ∨ yb.length ≠ 2 ∨ beta.length ≠ 2 ∨ bit > 1 then badOp else
      let E : Params := { q := q, cd := mockCodec q, name := [], O := fun _ _ _ => c, sv := svars bifflePred,
                          pval := bifflePoints q g h (ofList x) (ofList y) (ofList xb) (ofList yb) }
      match hashProve E (ofList beta) (ofList rl) bifflePred [bit] with
      | .ok pr => if drawsOf E (ofList rl) bifflePred [bit] = rl.length then s!"ok {outB pr}" else badOp
      | .error e => s!"err:{errName e}"
    | _, _, _, _, _, _, _, _, _, _, _ => badOp
  | ["bverify", qs, gs, hs, xs, ys, xbs, ybs, prs, cs] =>
    match hexN qs, hexN gs, hexN hs, hexNList xs, hexNList ys, hexNList xbs, hexNList ybs, hexB prs, hexN cs with
    | some q, some g, some h, some x, some y, some xb, some yb, some pr, some c =>
      if q < 2 ∨ x.length ≠ 2 ∨ y.length ≠ 2 ∨ xb.length ≠ 2 ∨ yb.length ≠ 2 then badOp else
      let E : Params := { q := q, cd := mockCodec q, name := [], O := fun _ _ _ => c, sv := svars bifflePred,
                          pval := bifflePoints q g h (ofList x) (ofList y) (ofList xb) (ofList yb) }
      match hashVerify E bifflePred pr with
      | .ok _ => "accept"
      | .error e => s!"reject:{errName e}"
    | _, _, _, _, _, _, _, _, _ => badOp
  | _ => badOp

end Kyber.Drive
