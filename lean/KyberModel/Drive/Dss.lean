import KyberModel.Drive.Common
import KyberModel.Proto.Dss
/-
Handler `dss <q> run <fixOwn 0|1> <index> <n> <T> <alpha> <beta> <longC> <randC> <h> <sid> <ops>` : model of
sign/dss/dss.go (C12). `<ops>` is a comma list of `s` (PartialSig()) and `r:<I>:<V>:<sid>:<auth>`
(ProcessPartialSig; auth = 0/1 is the verdict of schnorr.Verify), `-` for none. Output:
`<result per op> <partialsIdx in insertion order> <EnoughPartialSig> <R:gamma | err>`; the result of `s`
is `P:<I>:<V>`, of `r` the verdict.
-/
namespace Kyber.Drive
open Kyber.Dss

def dssParseOp (s : String) : Option Op :=
  if s = "s" then some Op.sign else
  match s.splitOn ":" with
  | ["r", i, v, sid, a] =>
    match hexN i, hexN v, hexN sid with
    | some i, some v, some sid =>
      if a = "1" then some (Op.recv ⟨i, v, sid⟩ true)
      else if a = "0" then some (Op.recv ⟨i, v, sid⟩ false) else none
    | _, _, _ => none
  | _ => none

def dssVerdict : Verdict → String
  | .ok => "ok" | .errIndex => "errIndex" | .errAuth => "errAuth" | .errSession => "errSession"
  | .errDup => "errDup" | .errInvalid => "errInvalid"

/-- Runs the history with the very functions `step` is made of, collecting the per-op results. -/
def dssRun (fx : Bool) (q : Nat) : DSS → List Op → List String → DSS × List String
  | d, [], acc => (d, acc.reverse)
  | d, Op.sign :: ops, acc =>
    let r := partialSig fx q d
    dssRun fx q r.1 ops (s!"P:{outN r.2.I}:{outN r.2.V}" :: acc)
  | d, Op.recv ps a :: ops, acc =>
    let r := processPartialSig q d ps a
    dssRun fx q r.1 ops (dssVerdict r.2 :: acc)

def handleDss : List String → String
  | [qs, "run", fxs, idx, n, t, al, be, lc, rc, h, sid, ops] =>
    let fxo : Option Bool := if fxs = "0" then some false else if fxs = "1" then some true else none
    match fxo with
    | none => badOp
    | some fx =>
    match hexN qs, hexN idx, hexN n, hexN t, hexN al, hexN be, hexNList lc, hexNList rc, hexN h, hexN sid with
    | some q, some idx, some n, some t, some al, some be, some lc, some rc, some h, some sid =>
      let opl := if ops = "-" then some [] else (ops.splitOn ",").mapM dssParseOp
      match opl with
      | none => badOp
      | some opl =>
        let r := dssRun fx q (newDSS idx n t al be lc rc h sid) opl []
        let d := r.1
        let res := if r.2.isEmpty then "-" else ",".intercalate r.2
        let sg := match signature q d with
          | some (rr, g) => s!"{outN rr}:{outN g}"
          | none => "err"
        s!"{res} {outNList d.seen} {outBool (enoughPartialSig d)} {sg}"
    | _, _, _, _, _, _, _, _, _, _ => badOp
  | [qs, "eddsa", a, h, r, s] => match hexN qs, hexN a, hexN h, hexN r, hexN s with
    | some q, some a, some h, some r, some s => outBool (eddsaEq q a h (r, s))
    | _, _, _, _, _ => badOp
  | _ => badOp

end Kyber.Drive
