import KyberModel.Drive.Common
import KyberModel.Proto.Enc
import KyberModel.Groups.Scalar
/-
Handlers for C16 (`enc <scheme-op> args… <table>`), discrete-log representation on the mock group.

The oracles of the model (KDF, AEAD, IBE hashes, XOF streams) are answered from a table lent by the
harness: `;`-separated entries `<query>=<value>`, or `-`. A query is assembled by the model from ITS
inputs: `kdf:<dh>`, `seal:<key>:<msg>`, `open:<key>:<box>`, `h2:<gt>`, `h3:<sigma>:<msg>`, `h4:<sigma>`,
`pad:<dh>`, `body:<xb>:<n>`, `mac:<key>:<body>` (numbers and bytes in hex, `-` empty, value `!` = the
oracle failed / rejected). A line answers `need <query>` for the first query the table lacks (in the
order the code would make them), else the model's result:
  ecies-e <q> <tag> <x> <r> <msg> T            → ok <ct>
  ecies-d <q> <tag> <x> <ct> T                 → ok <msg> | err
  ibe-e   <q> <hs> <gid> <sigma> <msg> T       → ok <U>,<V>,<W> | err
  ibe-d   <q> <hs> <priv> <U> <V> <W> T        → ok <msg> | err
  cpa-e / cpa-e+ <q> <hs> <base> <pub> <qid> <r> <msg> T → ok <rP>,<C> | err    (`+` = repaired guard)
  cpa-d   <q> <hs> <priv> <rP> <C> T           → ok <msg>
  anon-e / anon-e+k <q> <tag> <x> <set> <msg> T → ok <ct>                       (`+k` = repaired keyed MAC)
  anon-d / anon-d+k / anon-d+h / anon-d+kh <q> <tag> <ct> <set> <mine> <priv> T → ok <msg> | err | panic
                                               (`h` = repaired header comparison, see Proto/Enc.lean)
-/
namespace Kyber.Drive
open Kyber.Enc

abbrev Tbl := List (String × String)

def parseTbl (s : String) : Option Tbl :=
  if s = "-" then some [] else
    (s.splitOn ";").mapM (fun e => match e.splitOn "=" with
      | [k, v] => some (k, v)
      | _ => none)

def look (t : Tbl) (k : String) : Option String := (t.find? (fun e => e.1 == k)).map (·.2)

/-- `ask t k`: the value of query `k`, or the request for it. -/
def ask (t : Tbl) (k : String) : Except String String :=
  match look t k with
  | some v => .ok v
  | none => .error ("need " ++ k)

/-- value of a bytes-valued oracle from the table; the poison is never part of an answer because every
    query the model makes has been `ask`ed first (and any slip would show as a byte difference). -/
def oracleB (t : Tbl) (k : String) : Bytes := ((look t k).bind hexB).getD [0xde, 0xad]

/-- The mock group's encodings (harness/internal/dlgroup): point = tag byte ‖ big-endian dlog of
    `⌈bitlen q / 8⌉` bytes, range-checked; scalar = the same without the tag (mod.Int, big-endian). -/
def dlCodec (q tag : Nat) : Codec :=
  let sl := (Scalar.bitLen q + 7) / 8
  { q := q, pointLen := 1 + sl, scalarLen := sl
    encPoint := fun v => UInt8.ofNat tag :: encodeBE sl v
    decPoint := fun b => match b with
      | t :: rest =>
        if rest.length ≠ sl then none
        else if t ≠ UInt8.ofNat tag then none
        else if decodeBE rest < q then some (decodeBE rest) else none
      | [] => none
    encScalar := fun v => encodeBE sl v
    decScalar := fun b =>
      if b.length ≠ sl then none
      else if decodeBE b < q then some (decodeBE b) else none }

def kKdf (dh : Nat) : String := "kdf:" ++ outN dh
def kSeal (k m : Bytes) : String := "seal:" ++ outB k ++ ":" ++ outB m
def kOpen (k c : Bytes) : String := "open:" ++ outB k ++ ":" ++ outB c
def kH2 (g : Nat) : String := "h2:" ++ outN g
def kH3 (s m : Bytes) : String := "h3:" ++ outB s ++ ":" ++ outB m
def kH4 (s : Bytes) : String := "h4:" ++ outB s
def kPad (dh : Nat) : String := "pad:" ++ outN dh
def kBody (xb : Bytes) (n : Nat) : String := "body:" ++ outB xb ++ ":" ++ outN n
def kMac (k b : Bytes) : String := "mac:" ++ outB k ++ ":" ++ outB b

def tblAead (t : Tbl) : Aead Bytes where
  sealBox := fun k m => oracleB t (kSeal k m)
  openBox := fun k c => match look t (kOpen k c) with
    | some "!" => none
    | some v => hexB v
    | none => none

def tblIbe (t : Tbl) (hs : Nat) : IbeOracles where
  hs := hs
  h2 := fun g => oracleB t (kH2 g)
  h3 := fun s m => match look t (kH3 s m) with
    | some "!" => none
    | some v => hexN v
    | none => none
  h4 := fun s => oracleB t (kH4 s)

def tblAnon (t : Tbl) : AnonOracles where
  pad := fun s => oracleB t (kPad s)
  body := fun xb n => oracleB t (kBody xb n)
  mac := fun k b => oracleB t (kMac k b)

def optB : Option Bytes → String
  | some b => "ok " ++ outB b
  | none => "err"

def finish (r : Except String String) : String :=
  match r with
  | .ok s => s
  | .error s => s

/-! The `do` blocks below make the oracle queries in the order the code makes them (so the first missing
    one is requested), then evaluate the MODEL function on table-backed oracles. -/

def runEciesE (q tag x r : Nat) (msg : Bytes) (t : Tbl) : Except String String := do
  let c := dlCodec q tag
  let k ← ask t (kKdf (r * x % c.q))
  let kb := (hexB k).getD []
  let _ ← ask t (kSeal kb msg)
  pure ("ok " ++ outB (eciesEncrypt c (fun dh => oracleB t (kKdf dh)) (tblAead t) x r msg))

def runEciesD (q tag x : Nat) (ct : Bytes) (t : Tbl) : Except String String := do
  let c := dlCodec q tag
  if ct.length ≥ c.pointLen then
    match c.decPoint (ct.take c.pointLen) with
    | some R =>
      let k ← ask t (kKdf (x * R % c.q))
      let kb := (hexB k).getD []
      let _ ← ask t (kOpen kb (ct.drop c.pointLen))
    | none => pure ()
  pure (optB (eciesDecrypt c (fun dh => oracleB t (kKdf dh)) (tblAead t) x ct))

def ctStr (c : IbeCt) : String := s!"ok {outN c.U},{outB c.V},{outB c.W}"

def runIbeE (q hs gid : Nat) (sigma msg : Bytes) (t : Tbl) : Except String String := do
  let o := tblIbe t hs
  if msg.length ≤ hs then
    let _ ← ask t (kH3 sigma msg)
    match o.h3 sigma msg with
    | some r =>
      let _ ← ask t (kH2 (r * gid % q))
      let _ ← ask t (kH4 sigma)
    | none => pure ()
  pure (match ibeEncryptCCA q o gid sigma msg with
    | some c => ctStr c
    | none => "err")

def runIbeD (q hs priv : Nat) (ct : IbeCt) (t : Tbl) : Except String String := do
  let o := tblIbe t hs
  if ct.W.length ≤ hs then
    let _ ← ask t (kH2 (ct.U * priv % q))
    let pad := gtToHash o (ct.U * priv % q) ct.W.length
    if pad.length = ct.V.length then
      let sigma := xorBytes pad ct.V
      let _ ← ask t (kH4 sigma)
      let msg := xorBytes (h4pad o sigma ct.W.length) ct.W
      let _ ← ask t (kH3 sigma msg)
  pure (optB (ibeDecryptCCA q o priv ct))

def runCpaE (g : Bool) (q hs base pub qid r : Nat) (msg : Bytes) (t : Tbl) : Except String String := do
  let o := tblIbe t hs
  if msg.length >>> 16 = 0 && !(g && decide (msg.length > hs)) then
    let _ ← ask t (kH2 (pub * (r * qid % q) % q))
  pure (match ibeEncryptCPA g q o base pub qid r msg with
    | some c => s!"ok {outN c.1},{outB c.2}"
    | none => "err")

def runCpaD (q hs priv rP : Nat) (C : Bytes) (t : Tbl) : Except String String := do
  let o := tblIbe t hs
  let _ ← ask t (kH2 (rP * priv % q))
  pure ("ok " ++ outB (ibeDecryptCPA q o priv (rP, C)))

def askAll (t : Tbl) : List String → Except String Unit
  | [] => pure ()
  | k :: ks => do let _ ← ask t k; askAll t ks

def runAnonE (keyed : Bool) (q tag x : Nat) (set : List Nat) (msg : Bytes) (t : Tbl) : Except String String := do
  let c := dlCodec q tag
  let o := tblAnon t
  askAll t (set.map (fun y => kPad (x * y % c.q)))
  let xb := c.encScalar x
  let _ ← ask t (kBody xb msg.length)
  let body := xorBytes msg (o.body xb msg.length)
  let _ ← ask t (kMac (if keyed then xb else []) body)
  pure ("ok " ++ outB (anonEncrypt keyed c o x set msg))

def runAnonD (keyed hdrCheck : Bool) (q tag : Nat) (ct : Bytes) (set : List Nat) (mine priv : Nat) (t : Tbl) :
    Except String String := do
  let c := dlCodec q tag
  let o := tblAnon t
  -- the queries of `decryptKey`, in its order
  if ct.length ≥ c.pointLen then
    match c.decPoint (ct.take c.pointLen) with
    | some X =>
      if mine < set.length && ct.length ≥ c.pointLen + c.scalarLen * set.length then
        let _ ← ask t (kPad (priv * X % c.q))
        let xb := xorBytes ((ct.drop (c.pointLen + c.scalarLen * mine)).take c.scalarLen) (o.pad (priv * X % c.q))
        match c.decScalar xb with
        | some x =>
          if x % c.q = X then askAll t (set.map (fun y => kPad (x * y % c.q)))
        | none => pure ()
    | none => pure ()
  match anonDecryptKey hdrCheck c o ct set mine priv with
  | some (some (xb, hdrlen)) =>
    if ct.length ≥ hdrlen + macSize then
      let body := (ct.drop hdrlen).take (ct.length - macSize - hdrlen)
      let _ ← ask t (kMac (if keyed then xb else []) body)
      let _ ← ask t (kBody xb body.length)
  | _ => pure ()
  pure (match anonDecrypt keyed hdrCheck c o ct set mine priv with
    | .ok m => "ok " ++ outB m
    | .err => "err"
    | .panic => "panic")

def handleEnc : List String → String
  | ["ecies-e", q, tag, x, r, msg, tb] =>
    match hexN q, hexN tag, hexN x, hexN r, hexB msg, parseTbl tb with
    | some q, some tag, some x, some r, some msg, some t => finish (runEciesE q tag x r msg t)
    | _, _, _, _, _, _ => badOp
  | ["ecies-d", q, tag, x, ct, tb] =>
    match hexN q, hexN tag, hexN x, hexB ct, parseTbl tb with
    | some q, some tag, some x, some ct, some t => finish (runEciesD q tag x ct t)
    | _, _, _, _, _ => badOp
  | ["ibe-e", q, hs, gid, sigma, msg, tb] =>
    match hexN q, hexN hs, hexN gid, hexB sigma, hexB msg, parseTbl tb with
    | some q, some hs, some gid, some sigma, some msg, some t => finish (runIbeE q hs gid sigma msg t)
    | _, _, _, _, _, _ => badOp
  | ["ibe-d", q, hs, priv, u, v, w, tb] =>
    match hexN q, hexN hs, hexN priv, hexN u, hexB v, hexB w, parseTbl tb with
    | some q, some hs, some priv, some u, some v, some w, some t => finish (runIbeD q hs priv ⟨u, v, w⟩ t)
    | _, _, _, _, _, _, _ => badOp
  | ["cpa-e", q, hs, base, pub, qid, r, msg, tb] =>
    match hexN q, hexN hs, hexN base, hexN pub, hexN qid, hexN r, hexB msg, parseTbl tb with
    | some q, some hs, some base, some pub, some qid, some r, some msg, some t =>
      finish (runCpaE false q hs base pub qid r msg t)
    | _, _, _, _, _, _, _, _ => badOp
  | ["cpa-e+", q, hs, base, pub, qid, r, msg, tb] =>
    match hexN q, hexN hs, hexN base, hexN pub, hexN qid, hexN r, hexB msg, parseTbl tb with
    | some q, some hs, some base, some pub, some qid, some r, some msg, some t =>
      finish (runCpaE true q hs base pub qid r msg t)
    | _, _, _, _, _, _, _, _ => badOp
  | ["cpa-d", q, hs, priv, rp, cc, tb] =>
    match hexN q, hexN hs, hexN priv, hexN rp, hexB cc, parseTbl tb with
    | some q, some hs, some priv, some rp, some cc, some t => finish (runCpaD q hs priv rp cc t)
    | _, _, _, _, _, _ => badOp
  | ["anon-e", q, tag, x, set, msg, tb] =>
    match hexN q, hexN tag, hexN x, hexNList set, hexB msg, parseTbl tb with
    | some q, some tag, some x, some set, some msg, some t => finish (runAnonE false q tag x set msg t)
    | _, _, _, _, _, _ => badOp
  | ["anon-e+k", q, tag, x, set, msg, tb] =>
    match hexN q, hexN tag, hexN x, hexNList set, hexB msg, parseTbl tb with
    | some q, some tag, some x, some set, some msg, some t => finish (runAnonE true q tag x set msg t)
    | _, _, _, _, _, _ => badOp
  | [op, q, tag, ct, set, mine, priv, tb] =>
    let var : Option (Bool × Bool) := match op with
      | "anon-d" => some (false, false)
      | "anon-d+k" => some (true, false)
      | "anon-d+h" => some (false, true)
      | "anon-d+kh" => some (true, true)
      | _ => none
    match var, hexN q, hexN tag, hexB ct, hexNList set, hexN mine, hexN priv, parseTbl tb with
    | some (k, h), some q, some tag, some ct, some set, some mine, some priv, some t =>
      finish (runAnonD k h q tag ct set mine priv t)
    | _, _, _, _, _, _, _, _ => badOp
  | _ => badOp

end Kyber.Drive
