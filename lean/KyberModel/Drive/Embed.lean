import KyberModel.Drive.Common
import KyberModel.Groups.Embed
import KyberModel.Groups.HashToCurve
import KyberModel.Proto.Effects
/-
Handlers (C17):
  `embed <group> [params] <data|nil> <stream>`  → `exhausted` | `ok <value…> <bytes consumed>`
  `pick bn256g1 <stream>`                        → `exhausted` | `ok <encoding> <bytes consumed>`
  `data <group> [params] <value>`                → `err` | `ok <bytes>`
  `mem <group> [params] <encoding>`              → `baddec` | `true` | `false`   (order test q•P = O)
  `h2c xmd|field|ell2|hash …`                    → RFC 9380 pieces for edwards25519
-/
namespace Kyber.Drive
open Kyber

/-- `nil` = no data (Go `nil`); otherwise hex (`-` = empty, non-nil). -/
def dataTok (s : String) : Option (Option Bytes) :=
  if s = "nil" then some none else (hexB s).map some

def handleEmbed : List String → String
  | ["ed25519", d, st] => match dataTok d, hexB st with
    | some d, some st => (match Ed25519.embed d st with
      | none => "exhausted" | some (P, n) => s!"ok {outB (Ed25519.enc P)} {n}")
    | _, _ => badOp
  | ["p256", d, st] => match dataTok d, hexB st with
    | some d, some st => (match P256.embed d st with
      | none => "exhausted" | some ((x, y), n) => s!"ok {outN x} {outN y} {n}")
    | _, _ => badOp
  | ["residue", P, Q, d, st] => match hexN P, hexN Q, dataTok d, hexB st with
    | some P, some Q, some d, some st => (match Residue.embed P Q d st with
      | none => "exhausted" | some (v, n) => s!"ok {outN v} {n}")
    | _, _, _, _ => badOp
  | ["bn256g1", d, st] => match dataTok d, hexB st with
    | some d, some st => (match BN256.embed d st with
      | none => "exhausted" | some (xy, n) => s!"ok {outB (BN256.enc (some xy))} {n}")
    | _, _ => badOp
  | _ => badOp

def handlePick : List String → String
  | ["bn256g1", st] => match hexB st with
    | some st => (match BN256.pick st with
      | none => "exhausted" | some (P, n) => s!"ok {outB (BN256.enc P)} {n}")
    | none => badOp
  | _ => badOp

def outData : Option Bytes → String
  | none => "err"
  | some b => "ok " ++ outB b

def handleData : List String → String
  | ["ed25519", e] => match hexB e with
    | some e => (match Ed25519.dec e with | none => "baddec" | some P => outData (Ed25519.data P))
    | none => badOp
  | ["p256", x] => match hexN x with
    | some x => outData (P256.data x) | none => badOp
  | ["residue", P, v] => match hexN P, hexN v with
    | some P, some v => outData (Residue.data P v) | _, _ => badOp
  | ["bn256g1", e] => match hexB e with
    | some e => (match BN256.dec e with | none => "baddec" | some P => outData (BN256.data P))
    | none => badOp
  | _ => badOp

def handleMem : List String → String
  | ["ed25519", e] => match hexB e with
    | some e => (match Ed25519.dec e with
      | none => "baddec" | some P => outBool (Ed25519.smul Ed25519.L P == Edwards.zero))
    | none => badOp
  | ["p256", e] => match hexB e with
    | some e => (match P256.dec e with
      | none => "baddec" | some P => outBool (Weierstrass.smul P256.curve P256.n P == none))
    | none => badOp
  | ["bn256g1", e] => match hexB e with
    | some e => (match BN256.dec e with
      | none => "baddec" | some P => outBool (Weierstrass.smul BN256.curve BN256.n P == none))
    | none => badOp
  | ["bn254g1", e] => match hexB e with
    | some e => (match BN254.dec e with
      | none => "baddec" | some P => outBool (Weierstrass.smul BN254.curve BN254.n P == none))
    | none => badOp
  | ["bls12381g1", e] => match hexB e with
    | some e => (match BLS12381.dec e with | none => "baddec" | some _ => "true")
    | none => badOp
  | ["residue", P, Q, e] => match hexN P, hexN Q, hexB e with
    | some P, some Q, some e => (match Residue.dec P Q e with | none => "baddec" | some _ => "true")
    | _, _, _ => badOp
  | _ => badOp

def handleH2c : List String → String
  | ["xmd", m, d, l] => match hexB m, hexB d, hexN l with
    | some m, some d, some l => (match H2C.expandXmd m d l with | none => "err" | some b => "ok " ++ outB b)
    | _, _, _ => badOp
  | ["field", m, d] => match hexB m, hexB d with
    | some m, some d => (match H2C.hashToField m d with
      | none => "err" | some (u0, u1) => s!"ok {outN u0} {outN u1}")
    | _, _ => badOp
  | ["ell2", u] => match hexN u with
    | some u => "ok " ++ outB (Ed25519.enc (H2C.mapToEdwards u)) | none => badOp
  | ["bn256", m] => match hexB m with
    | some m => (match BN256.hash m with | none => "err" | some P => "ok " ++ outB (BN256.enc P))
    | none => badOp
  | ["hash", m, d] => match hexB m, hexB d with
    | some m, some d => (match H2C.hash m d with | none => "err" | some P => "ok " ++ outB (Ed25519.enc P))
    | _, _ => badOp
  | _ => badOp

/-- `effects count` → number of table entries; `effects entry <i>` → `impl|method|class` (C20). -/
def handleEffects : List String → String
  | ["count"] => toString Effects.table.length
  | ["entry", i] => match i.toNat? with
    | some i => (match Effects.table[i]? with
      | some x => s!"{x.impl}|{x.method}|" ++ (match x.cls with
          | .pure => "pure" | .fresh => "fresh" | .sharedWrite => "sharedWrite")
      | none => badOp)
    | none => badOp
  | _ => badOp

end Kyber.Drive
