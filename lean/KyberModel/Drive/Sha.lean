import KyberModel.Drive.Common
import KyberModel.Core.Sha512
import KyberModel.Core.Sha256
/- Handler `sha 512|256 <msg-hex>` : the SHA-2 models (C08, Library H). -/
namespace Kyber.Drive

def handleSha : List String → String
  | ["512", m] => match hexB m with
    | some m => outB (Sha512.hash m) | none => badOp
  | ["256", m] => match hexB m with
    | some m => outB (Sha256.hash m) | none => badOp
  | _ => badOp

end Kyber.Drive
