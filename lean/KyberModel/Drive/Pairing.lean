import KyberModel.Drive.Common
import KyberModel.Proto.Pairing
/-
Driver handler for C06:
`c06 pair <q> <a> <b>` · `c06 gtmul <q> <s> <g>` · `c06 gtadd <q> <g> <g'>` · `c06 lin <q> <a> <b> <c>` (= a·b + c)
`c06 validate <bn256|bn254|kilic|circl|circlfixed|gnark> <q> <p1> <p2> <i1> <i2>`
-/
namespace Kyber.Drive
open Kyber.Pairing

def handleC06 : List String → String
  | ["pair", qs, a, b] => match hexN qs, hexN a, hexN b with
    | some q, some a, some b => outN (pair q a b) | _, _, _ => badOp
  | ["gtmul", qs, a, b] => match hexN qs, hexN a, hexN b with
    | some q, some a, some b => outN (gtMul q a b) | _, _, _ => badOp
  | ["gtadd", qs, a, b] => match hexN qs, hexN a, hexN b with
    | some q, some a, some b => outN (gtAdd q a b) | _, _, _ => badOp
  | ["lin", qs, a, b, c] => match hexN qs, hexN a, hexN b, hexN c with
    | some q, some a, some b, some c => outN (gAdd q (gMul q a b) c) | _, _, _, _ => badOp
  | ["validate", form, qs, p1, p2, i1, i2] =>
    match hexN qs, hexN p1, hexN p2, hexN i1, hexN i2 with
    | some q, some p1, some p2, some i1, some i2 =>
      (match form with
       | "bn256" => outBool (validateBn256 q p1 p2 i1 i2)
       | "bn254" => outBool (validateBn254 q id p1 p2 i1 i2)
       | "kilic" => outBool (validateKilic q p1 p2 i1 i2)
       | "circl" => outBool (validateCirclCoded q p1 p2 i1 i2)
       | "circlfixed" => outBool (validateCirclFixed q p1 p2 i1 i2)
       | "gnark" => outBool (validateGnark q p1 p2 i1 i2)
       | _ => badOp)
    | _, _, _, _, _ => badOp
  | _ => badOp

end Kyber.Drive
