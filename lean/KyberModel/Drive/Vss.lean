import KyberModel.Drive.Common
import KyberModel.Proto.Vss
/-
Handler `vss <p|r> <strict 0|1> <n> <q> <h> <role> <op> <op> …` : VSS participant model (C10).

role  : `v<me>` (verifier) | `d<t>:<sid>` (dealer)
ops   : `E:<sigOk>:<opens>:<deal>`  Verifier.ProcessEncryptedDeal
        `R:<sid>:<idx>:<approved>:<sigOk>`  ProcessResponse
        `J:<idx>:<sigOk>:<deal>`  Verifier.ProcessJustification
        `T` SetTimeout   `U:<idx>:<approved>` UnsafeSetResponseDKG   `S:<t>` SetThreshold
        `V:<incl>:<deal>` VerifyDeal called directly
deal  : `sid/i/v/ri/rv/t/c0,c1,…` (hex; `-` for no commitments)
output: one token per op: `<out>/<certified>/<enough|->/<state>` with
        state = `nil` | `<bad>,<timeout>,<t>,<sid|n>,<hasDeal>,<idx><+|->…|-`
-/
namespace Kyber.Drive
open Kyber.Vss

private def bool01 (s : String) : Option Bool :=
  if s = "1" then some true else if s = "0" then some false else none

private def parseDeal (s : String) : Option Deal :=
  match s.splitOn "/" with
  | [sid, i, v, ri, rv, t, cs] => do
    let sid ← hexN sid; let i ← hexN i; let v ← hexN v; let ri ← hexN ri; let rv ← hexN rv
    let t ← hexN t; let cs ← hexNList cs
    pure { sid := sid, i := i, v := v, ri := ri, rv := rv, t := t, commits := cs }
  | [sid, i, v, ri, rv, t, cs, csid] => do
    let sid ← hexN sid; let i ← hexN i; let v ← hexN v; let ri ← hexN ri; let rv ← hexN rv
    let t ← hexN t; let cs ← hexNList cs; let csid ← hexN csid
    pure { sid := sid, i := i, v := v, ri := ri, rv := rv, t := t, commits := cs, csid := csid }
  | _ => none

private def parseOp (s : String) : Option Op :=
  match s.splitOn ":" with
  | ["E", a, b, d] => do pure (.encDeal (← bool01 a) (← bool01 b) (← parseDeal d))
  | ["R", sid, idx, a, b] => do pure (.response (← hexN sid) (← hexN idx) (← bool01 a) (← bool01 b))
  | ["J", idx, a, d] => do pure (.justification (← hexN idx) (← bool01 a) (← parseDeal d))
  | ["T"] => some .setTimeout
  | ["U", idx, a] => do pure (.unsafeSet (← hexN idx) (← bool01 a))
  | ["S", t] => do pure (.setThreshold (← hexN t))
  | ["V", a, d] => do pure (.verifyDeal (← parseDeal d) (← bool01 a))
  | _ => none

private def parseRole (cfg : Cfg) (s : String) : Option Node :=
  if s.startsWith "v" then (hexN (s.drop 1).toString).map (newVerifier cfg)
  else if s.startsWith "d" then
    match (s.drop 1).toString.splitOn ":" with
    | [t, sid] => do pure (newDealer (← hexN t) (← hexN sid))
    | _ => none
  else none

private def dealErrS : DealErr → String
  | .already => "already" | .badT => "badT" | .tMismatch => "tMismatch" | .sid => "sid"
  | .rndIndex => "rndIndex" | .index => "index" | .share => "share"

private def respErrS : RespErr → String
  | .sid => "sid" | .range => "range" | .sig => "sig" | .dup => "dup"

private def justErrS : JustErr → String
  | .sig => "sig" | .range => "range" | .noComplaint => "noComplaint" | .approved => "approved"
  | .unbound => "unbound" | .deal e => "deal-" ++ dealErrS e

def vssOutS : Out → String
  | .approve => "approve" | .complain => "complain" | .ok => "ok" | .justif => "justif"
  | .errSig => "err:sig" | .errOpen => "err:open" | .errIndex => "err:index"
  | .errDeal e => "err:deal-" ++ dealErrS e
  | .errResp e => "err:resp-" ++ respErrS e
  | .errJust e => "err:just-" ++ justErrS e
  | .errNoDeal => "err:nodeal" | .panic => "panic" | .unsupported => "unsupported"

/-- insertion sort of the response map by index (canonical output) -/
private def insResp (p : Nat × Bool) : List (Nat × Bool) → List (Nat × Bool)
  | [] => [p]
  | x :: xs => if p.1 ≤ x.1 then p :: x :: xs else x :: insResp p xs

private def respS (rs : List (Nat × Bool)) : String :=
  if rs.isEmpty then "-" else
    "".intercalate ((rs.foldr insResp []).map (fun p => natToHex p.1 ++ (if p.2 then "+" else "-")))

private def stateS (cfg : Cfg) (nd : Node) : String :=
  let cert := outBool01 (certified cfg nd)
  match nd.agg with
  | none => s!"{cert}/-/nil"
  | some a =>
    let en := match cfg.variant with | .pedersen => "-" | .rabin => outBool01 (enoughApprovals cfg a)
    let sid := match a.sid with | none => "n" | some s => natToHex s
    s!"{cert}/{en}/{outBool01 a.badDealer},{outBool01 a.timeout},{natToHex a.t},{sid},{outBool01 a.deal.isSome},{respS a.responses}"
where outBool01 (b : Bool) : String := if b then "1" else "0"

private def runOps (cfg : Cfg) : Node → List Op → List String
  | _, [] => []
  | nd, op :: ops =>
    let (nd', o) := step cfg nd op
    (vssOutS o ++ "/" ++ stateS cfg nd') :: runOps cfg nd' ops

/-- Exported for the Rabin DKG handler (`Drive/RabinDkg.lean`). -/
def vssParseDeal (s : String) : Option Deal := parseDeal s
def vssBool01 (s : String) : Option Bool := bool01 s
def vssStateS (cfg : Cfg) (nd : Node) : String := stateS cfg nd

def handleVss : List String → String
  | var :: strict :: n :: q :: h :: role :: ops =>
    match (if var = "p" then some Variant.pedersen else if var = "r" then some Variant.rabin else none),
          bool01 strict, hexN n, hexN q, hexN h, ops.mapM parseOp with
    | some v, some st, some n, some q, some h, some ops =>
      let cfg : Cfg := { variant := v, n := n, q := q, h := h, strict := st }
      match parseRole cfg role with
      | some nd =>
        let outs := runOps cfg nd ops
        if outs.isEmpty then "-" else " ".intercalate outs
      | none => badOp
    | _, _, _, _, _, _ => badOp
  | _ => badOp

end Kyber.Drive
