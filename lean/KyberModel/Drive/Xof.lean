import KyberModel.Drive.Common
import KyberModel.Proto.Xof
import KyberModel.Proto.Random
/-
Handlers for C19.

`xof <kind> <seed> <ops> <table>`     kind: b (blake2xb, hs=64) | s (blake2xs, hs=32) | k (keccak, hs=0);
                                      `b+`/`s+`/`k+`: the repaired wrapper (`Xof.new … retain := true`)
    ops   : comma list of  w<i>:<hex>  r<i>:<n>  x<i>:<dstLen>:<hex>  s<i> (Reseed)  z<i> (Reset)  c<i> (Clone)
            (`i` = instance index, hex; instance 0 is `New(seed)`, every Clone appends an instance)
    table : `;` list of <key>:<absorbed>:<stream-prefix> lent by the harness from x/crypto, or `-`
  answers `ok <out>,<out>,…` (hex bytes | `-` empty bytes | `u` no value | `panic`) when the table covers
  every primitive request of the run, else `need <key>:<absorbed>:<n>;…` — the requests (assembled by the
  model) that the table does not cover, up to the first Reseed whose key material is missing.
`rnd bits <bitlen> <exact:0|1> <stream>`   → `<hex> <consumed>` | `panic <consumed>` | `exhausted`
`rnd bits+ …`                              the repaired `Bits` (`guard := true`)
`rnd int <q> <stream>`                     → `<value> <consumed>` | `exhausted`
`rnd stream <readers> <dstLen> <src> <shatable> <table>`
    readers: comma list of the bytes each reader can deliver; shatable: `;` list of <input>:<digest>
  → `ok <hex>` | `panic` | `needsha <input>` | `need <key>:<absorbed>:<n>`
-/
namespace Kyber.Drive
open Kyber.Xof

structure PrimEntry where
  key : Bytes
  abs : Bytes
  out : Array UInt8

def findEntry (tbl : List PrimEntry) (k a : Bytes) : Option PrimEntry :=
  tbl.find? (fun e => e.key == k && e.abs == a)

/-- The primitive as far as the table knows it. The `0` outside the table is never used by an answer:
    `ok` is only printed when every request of the run is covered (`covered`). -/
def primOf (tbl : List PrimEntry) : Prim := fun k a =>
  match findEntry tbl k a with
  | some e => ⟨fun i => e.out.getD i 0⟩
  | none => ⟨fun _ => 0⟩

def covered (tbl : List PrimEntry) (nd : Bytes × Bytes × Nat) : Bool :=
  match findEntry tbl nd.1 nd.2.1 with
  | some e => decide (nd.2.2 ≤ e.out.size)
  | none => false

def parseEntry (s : String) : Option PrimEntry :=
  match s.splitOn ":" with
  | [k, a, o] => do
    let k ← hexB k; let a ← hexB a; let o ← hexB o
    pure ⟨k, a, o.toArray⟩
  | _ => none

def parseTable (s : String) : Option (List PrimEntry) :=
  if s = "-" then some [] else (s.splitOn ";").mapM parseEntry

/-- first character = op letter, then the (hex) instance index -/
def parseIdx (s : String) : Option (Char × Nat) :=
  match s.toList with
  | c :: rest => (hexN (String.ofList rest)).map (fun i => (c, i))
  | [] => none

def parseMOp (s : String) : Option MOp :=
  match s.splitOn ":" with
  | [h] => match parseIdx h with
    | some ('s', i) => some (.on i .reseed)
    | some ('z', i) => some (.on i .reset)
    | some ('c', i) => some (.clone i)
    | _ => none
  | [h, a] => match parseIdx h with
    | some ('w', i) => (hexB a).map (fun b => .on i (.write b))
    | some ('r', i) => (hexN a).map (fun n => .on i (.read n))
    | _ => none
  | [h, d, a] => match parseIdx h, hexN d, hexB a with
    | some ('x', i), some dl, some b => some (.on i (.xor dl b))
    | _, _, _ => none
  | _ => none

def parseMOps (s : String) : Option (List MOp) :=
  if s = "-" then some [] else (s.splitOn ",").mapM parseMOp

def outStr : Out → String
  | .unit => "u"
  | .bytes b => outB b
  | .panic => "panic"

def needStr (nd : Bytes × Bytes × Nat) : String := s!"{outB nd.1}:{outB nd.2.1}:{outN nd.2.2}"

/-- Execute with `mstep` (the model proper), checking before each op that the table covers what the op
    asks of the primitive. Returns the outputs and the uncovered requests (in execution order; the walk
    stops after a Reseed with an uncovered request because later keys would be meaningless). -/
def walk (tbl : List PrimEntry) (hs : Nat) :
    List Xof → List MOp → List Out → List (Bytes × Bytes × Nat) → Option (List Out × List (Bytes × Bytes × Nat))
  | _, [], outs, miss => some (outs.reverse, miss.reverse)
  | m, op :: ops, outs, miss =>
    let nd : Option (Bytes × Bytes × Nat) := match op with
      | .on i o => (m[i]?).bind (fun x => need x o)
      | .clone _ => none
    let unc := match nd with
      | some n => !(covered tbl n)
      | none => false
    let miss' := match nd with
      | some n => if unc then n :: miss else miss
      | none => miss
    let isReseed := match op with
      | .on _ .reseed => true
      | _ => false
    if unc && isReseed then some (outs.reverse, miss'.reverse) else
    match mstep (primOf tbl) hs m op with
    | none => none
    | some (m', o) => walk tbl hs m' ops (o :: outs) miss'

def kindHs : String → Option (Nat × Bool)
  | "b" => some (64, false)
  | "s" => some (32, false)
  | "k" => some (0, false)
  | "b+" => some (64, true)
  | "s+" => some (32, true)
  | "k+" => some (0, true)
  | _ => none

def handleXof : List String → String
  | [kind, seed, ops, table] =>
    match kindHs kind, hexB seed, parseMOps ops, parseTable table with
    | some (hs, retain), some seed, some ops, some tbl =>
      (match walk tbl hs [Xof.new hs retain seed] ops [] [] with
       | none => badOp
       | some (outs, []) => "ok " ++ (if outs.isEmpty then "-" else ",".intercalate (outs.map outStr))
       | some (_, miss) => "need " ++ ";".intercalate (miss.map needStr))
    | _, _, _, _ => badOp
  | _ => badOp

def parseShaEntry (s : String) : Option (Bytes × Bytes) :=
  match s.splitOn ":" with
  | [i, o] => do let i ← hexB i; let o ← hexB o; pure (i, o)
  | _ => none

def parseShaTable (s : String) : Option (List (Bytes × Bytes)) :=
  if s = "-" then some [] else (s.splitOn ";").mapM parseShaEntry

def hexBList (s : String) : Option (List Bytes) :=
  if s = "none" then some [] else (s.splitOn ",").mapM hexB

def bitsOut : Option (Option Bytes × Nat) → String
  | none => "exhausted"
  | some (some b, n) => s!"{outB b} {n}"
  | some (none, n) => s!"panic {n}"

def parseBit : String → Option Bool
  | "0" => some false
  | "1" => some true
  | _ => none

def handleRnd : List String → String
  | ["bits", bl, ex, st] =>
    match hexN bl, parseBit ex, hexB st with
    | some bl, some ex, some st => bitsOut (Random.bitsFrom false bl ex st)
    | _, _, _ => badOp
  | ["bits+", bl, ex, st] =>
    match hexN bl, parseBit ex, hexB st with
    | some bl, some ex, some st => bitsOut (Random.bitsFrom true bl ex st)
    | _, _, _ => badOp
  | ["int", q, st] =>
    match hexN q, hexB st with
    | some q, some st => (match Random.int q st with
        | some (v, n) => s!"{outN v} {n}"
        | none => "exhausted")
    | _, _ => badOp
  | ["stream", readers, dl, src, shat, table] =>
    match hexBList readers, hexN dl, hexB src, parseShaTable shat, parseTable table with
    | some rs, some dl, some src, some shat, some tbl =>
      let inp := Random.seedInput rs
      -- requests are only meaningful when the call gets as far as hashing
      if src.length ≠ dl || Random.allFailed rs then
        (match Random.stream (fun _ => []) (primOf tbl) rs dl src with
         | none => "panic" | some b => "ok " ++ outB b)
      else match shat.find? (fun e => e.1 == inp) with
      | none => "needsha " ++ outB inp
      | some (_, dig) =>
        let x := Xof.new 64 false dig
        match need x (.xor dl src) with
        | some nd =>
          if covered tbl nd then
            (match Random.stream (fun _ => dig) (primOf tbl) rs dl src with
             | none => "panic" | some b => "ok " ++ outB b)
          else "need " ++ needStr nd
        | none => badOp
    | _, _, _, _, _ => badOp
  | _ => badOp

end Kyber.Drive
