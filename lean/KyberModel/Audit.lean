import Lean
/-
`#audit_module M` prints, for every theorem declared in module `M`, one line
`OBLIGATION <name> axioms=[...]`. `bin/check` counts these lines as the property's proof obligations
and rejects any axiom outside {propext, Classical.choice, Quot.sound}.
-/
open Lean Elab Command

elab "#audit_module " id:ident : command => do
  let env ← getEnv
  let modName := id.getId
  let some modIdx := env.getModuleIdx? modName
    | throwError "module {modName} not imported"
  let names := env.header.moduleData[modIdx.toNat]!.constNames
  let mut count : Nat := 0
  for n in names do
    if n.isInternal then continue
    let last := match n with | .str _ s => s | _ => ""
    if last.startsWith "eq_" || last.startsWith "induct" || last.startsWith "fun_cases"
       || last.startsWith "match_" || last.startsWith "proof_" || last.startsWith "congr_simp"
       || last.startsWith "sizeOf_spec" || last.startsWith "injEq" || last.startsWith "inj"
       || last.startsWith "noConfusion" || last.startsWith "eq_def" then continue
    match env.find? n with
    | some (.thmInfo _) =>
      let axs ← liftCoreM (collectAxioms n)
      let axs := axs.toList.map toString |>.toArray.qsort (· < ·)
      logInfo m!"OBLIGATION {n} axioms={axs.toList}"
      count := count + 1
    | _ => pure ()
  logInfo m!"OBLIGATIONS_TOTAL {modName} {count}"
