//go:build ignore

// Replay for fixes/C10-absent-share-scalar.patch: go run this file inside a kyber checkout.
// Unpatched tree: "share value: <nil> err: <nil>" followed by a panic in Mul (what VerifyDeal does next);
// patched tree: "err: missing share value". The full path through Verifier.ProcessEncryptedDeal is replayed by
// `bin/check C10 quick` (keys *:ProcessEncryptedDeal:absent-*-scalar-panic) using the verif hook EncryptRawFor.
package main

import (
	"fmt"

	"go.dedis.ch/kyber/v4/group/edwards25519"
	"go.dedis.ch/kyber/v4/share"
	pvss "go.dedis.ch/kyber/v4/share/vss/pedersen"
)

func main() {
	suite := edwards25519.NewBlakeSHA256Ed25519()
	// a marshalled Deal whose SecShare message carries only the index field (08 02 = I: 1), no value
	good := &pvss.Deal{SessionID: []byte("sid"), SecShare: &share.PriShare{I: 1, V: suite.Scalar().One()}, T: 2}
	buf, _ := good.Marshal()
	// locate the embedded SecShare (field 2) and cut its value field away
	var out []byte
	for i := 0; i < len(buf); {
		tag, l := buf[i], int(buf[i+1])
		if tag == 0x12 {
			inner := buf[i+2 : i+2+l]
			keep := inner[:2] // 08 <index>
			out = append(out, 0x12, byte(len(keep)))
			out = append(out, keep...)
			i += 2 + l
			out = append(out, buf[i:]...)
			break
		}
		if tag&7 == 2 {
			out = append(out, buf[i:i+2+l]...)
			i += 2 + l
		} else {
			out = append(out, buf[i:i+2]...)
			i += 2
		}
	}
	d := &pvss.Deal{}
	err := d.Unmarshal(out, suite)
	if err != nil {
		fmt.Println("err:", err)
		return
	}
	fmt.Println("share value:", d.SecShare.V, "err:", err)
	suite.Point().Mul(d.SecShare.V, nil) // first use: panics
}
