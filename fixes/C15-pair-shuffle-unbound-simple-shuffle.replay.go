//go:build ignore

// Replay for fixes/C15-pair-shuffle-unbound-simple-shuffle.patch.
// Run inside a module that resolves go.dedis.ch/kyber/v4 to the tree under test, e.g.
//   cd /verif/harness && GOFLAGS=-mod=mod GOPROXY=off go run /verif/fixes/C15-pair-shuffle-unbound-simple-shuffle.replay.go
// Prints "ACCEPTED" on the unpatched tree (a forged proof for an output that is not a shuffle
// verifies) and "rejected" on the patched one. The forger uses no secret and no discrete log.
package main

import (
	"fmt"

	"go.dedis.ch/kyber/v4"
	"go.dedis.ch/kyber/v4/group/edwards25519"
	"go.dedis.ch/kyber/v4/proof"
	"go.dedis.ch/kyber/v4/shuffle"
)

func main() {
	suite := edwards25519.NewBlakeSHA256Ed25519()
	rnd := suite.RandomStream()
	k := 2
	G := suite.Point().Base()
	H := suite.Point().Pick(rnd)
	X := []kyber.Point{suite.Point().Pick(rnd), suite.Point().Pick(rnd)}
	Y := []kyber.Point{suite.Point().Pick(rnd), suite.Point().Pick(rnd)}
	// claimed output: NOT a permutation of re-encryptions
	Xbar := []kyber.Point{suite.Point().Add(X[0], X[1]), X[1].Clone()}
	Ybar := []kyber.Point{suite.Point().Add(Y[0], Y[1]), Y[1].Clone()}

	forger := func(ctx proof.ProverContext) error {
		pick := func() kyber.Scalar { return suite.Scalar().Pick(rnd) }
		gamma, l := pick(), pick()
		Gamma := suite.Point().Mul(gamma, G)
		var A, C, U, W []kyber.Point
		w := []kyber.Scalar{pick(), pick()}
		for i := 0; i < k; i++ {
			A = append(A, suite.Point().Pick(rnd))
			C = append(C, suite.Point().Pick(rnd))
			U = append(U, suite.Point().Pick(rnd))
			W = append(W, suite.Point().Mul(w[i], G))
		}
		// layout of ega1: Gamma, A, C, U, W, Lambda1, Lambda2
		p1 := append([]kyber.Point{Gamma}, A...)
		p1 = append(append(append(p1, C...), U...), W...)
		p1 = append(p1, suite.Point().Mul(l, G), suite.Point().Mul(l, H))
		if err := ctx.Put(p1); err != nil {
			return err
		}
		rho := make([]kyber.Scalar, k)
		if err := ctx.PubRand(rho); err != nil {
			return err
		}
		sigma := []kyber.Scalar{rho[0].Clone(), suite.Scalar().Sub(rho[1], rho[0])}
		D := make([]kyber.Point, k)
		for i := range D {
			D[i] = suite.Point().Sub(suite.Point().Mul(sigma[i], Gamma), W[i]) // (33)
		}
		if err := ctx.Put(D); err != nil {
			return err
		}
		lambda := make([]kyber.Scalar, 1)
		if err := ctx.PubRand(lambda); err != nil {
			return err
		}
		if err := ctx.Put(append(sigma, suite.Scalar().Neg(l))); err != nil { // Zsigma, Ztau
			return err
		}
		// any honest simple shuffle w.r.t. (G, Gamma), unrelated to A, B, C, D
		r := []kyber.Scalar{pick(), pick()}
		s := []kyber.Scalar{suite.Scalar().Mul(gamma, r[1]), suite.Scalar().Mul(gamma, r[0])}
		return (&shuffle.SimpleShuffle{}).Init(suite, k).Prove(G, gamma, r, s, rnd, ctx)
	}
	pr, err := proof.HashProve(suite, "PairShuffle", forger)
	if err != nil {
		panic(err)
	}
	if proof.HashVerify(suite, "PairShuffle", shuffle.Verifier(suite, G, H, X, Y, Xbar, Ybar), pr) == nil {
		fmt.Println("ACCEPTED: forged proof for a non-permutation output verifies")
	} else {
		fmt.Println("rejected")
	}
}
