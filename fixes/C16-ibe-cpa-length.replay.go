//go:build ignore

// Replay for fixes/C16-ibe-cpa-length.patch: go run this file inside a kyber checkout.
// Unpatched tree: prints "ciphertext bytes 32..47 == plaintext bytes 32..47: true".
package main

import (
	"bytes"
	"fmt"

	"go.dedis.ch/kyber/v4/encrypt/ibe"
	"go.dedis.ch/kyber/v4/pairing/bls12381/kilic"
)

func main() {
	s := kilic.NewBLS12381Suite()
	P := s.G1().Point().Base()
	x := s.G1().Scalar().Pick(s.RandomStream())
	Ppub := s.G1().Point().Mul(x, P)
	msg := []byte("0123456789abcdef0123456789abcdefTHIS-IS-IN-CLEAR")
	c, err := ibe.EncryptCPAonG1(s, P, Ppub, []byte("id"), msg)
	if err != nil {
		fmt.Println("refused:", err)
		return
	}
	fmt.Printf("ciphertext bytes 32..47 == plaintext bytes 32..47: %v (%q)\n", bytes.Equal(c.C[32:], msg[32:]), c.C[32:])
}
