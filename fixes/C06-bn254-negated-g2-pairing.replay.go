//go:build ignore

// Replay for fixes/C06-bn254-negated-g2-pairing.patch: go run this file inside a kyber checkout
// (public API only). Unpatched tree prints "false false false"; patched tree prints "true true true".
package main

import (
	"fmt"

	"go.dedis.ch/kyber/v4/pairing/bn254"
)

func main() {
	s := bn254.NewSuite()
	B1, Q := s.G1().Point().Base(), s.G2().Point().Base()
	nQ := s.G2().Point().Neg(Q)
	e := s.Pair(B1, Q)
	fmt.Println(
		s.Pair(B1, nQ).Equal(s.GT().Point().Neg(e)),
		s.GT().Point().Add(e, s.Pair(B1, nQ)).Equal(s.GT().Point().Null()),
		s.ValidatePairing(B1, nQ, s.G1().Point().Neg(B1), Q))
}
