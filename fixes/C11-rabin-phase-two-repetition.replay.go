//go:build ignore

// Replay for fixes/C11-rabin-phase-two-repetition.patch: go run this file inside a kyber checkout.
// Rabin DKG, n=5, t=3, ONE faulty participant: dealer 0 publishes secret commitments that are wrong for
// participant 1 only; 1 complains, 2, 3 and 4 reveal the shares dealer 0 gave them and dealer 0's polynomial is
// interpolated. The broadcast channel repeats messages:
//   mode "before": dealer 0's SecretCommits and the complaint are delivered a second time before the revealed
//                  shares arrive. Every node stores the commitments again, deletes them again and records its OWN
//                  share a second time; with the first share of somebody else it holds t messages but only two
//                  distinct evaluation points, share.RecoverPriPoly fails, the error is dropped and the nil
//                  polynomial dereferenced.   Unpatched: "node 2: PANIC".  Patched: all nodes agree.
//   mode "after":  dealer 0's SecretCommits are delivered once more after the reconstruction. Nodes 2, 3, 4 (whose
//                  own shares satisfy the wrong commitments) overwrite the reconstructed polynomial with them;
//                  node 1 refuses them again.   Unpatched: nodes 2, 3, 4 "different number of coefficients" (with
//                  commitments of the right length: another key than node 1).  Patched: all nodes agree.
package main

import (
	"fmt"
	"os"

	"go.dedis.ch/kyber/v4"
	"go.dedis.ch/kyber/v4/group/edwards25519"
	dkg "go.dedis.ch/kyber/v4/share/dkg/rabin"
	vss "go.dedis.ch/kyber/v4/share/vss/rabin"
	"go.dedis.ch/kyber/v4/sign/schnorr"
)

func cp(r *dkg.Response) *dkg.Response {
	in := *r.Response
	return &dkg.Response{Index: r.Index, Response: &in}
}

func main() {
	mode := "before"
	if len(os.Args) > 1 {
		mode = os.Args[1]
	}
	suite := edwards25519.NewBlakeSHA256Ed25519()
	const n, t = 5, 3
	secs := make([]kyber.Scalar, n)
	pubs := make([]kyber.Point, n)
	for i := range secs {
		secs[i] = suite.Scalar().Pick(suite.RandomStream())
		pubs[i] = suite.Point().Mul(secs[i], nil)
	}
	gens := make([]*dkg.DistKeyGenerator, n)
	for i := range gens {
		gens[i], _ = dkg.NewDistKeyGenerator(suite, secs[i], pubs, t)
	}
	var resps []*dkg.Response
	for _, g := range gens {
		deals, _ := g.Deals()
		for i, dd := range deals {
			r, err := gens[i].ProcessDeal(dd)
			if err != nil {
				panic(err)
			}
			resps = append(resps, r)
		}
	}
	for _, r := range resps {
		for i, g := range gens {
			if uint32(i) != r.Response.Index {
				_, _ = g.ProcessResponse(cp(r))
			}
		}
	}
	_ = vss.Response{}
	// secret commitments; dealer 0 adds h(x) = c·(x-1)(x-3)(x-4)(x-5), which vanishes at the evaluation points
	// (index+1) of everybody but participant 1
	var scs []*dkg.SecretCommits
	for i, g := range gens {
		sc, err := g.SecretCommits()
		if err != nil {
			panic(err)
		}
		if i == 0 {
			h := []kyber.Scalar{suite.Scalar().Pick(suite.RandomStream())}
			for _, root := range []int64{1, 3, 4, 5} {
				nh := make([]kyber.Scalar, len(h)+1)
				for k := range nh {
					nh[k] = suite.Scalar().Zero()
				}
				for k, hk := range h {
					nh[k+1] = suite.Scalar().Add(nh[k+1], hk)
					nh[k] = suite.Scalar().Sub(nh[k], suite.Scalar().Mul(hk, suite.Scalar().SetInt64(root)))
				}
				h = nh
			}
			var fake []kyber.Point
			for k := 0; k < len(h) || k < len(sc.Commitments); k++ {
				pt := suite.Point().Null()
				if k < len(h) {
					pt = suite.Point().Mul(h[k], nil)
				}
				if k < len(sc.Commitments) {
					pt = suite.Point().Add(pt, sc.Commitments[k])
				}
				fake = append(fake, pt)
			}
			bad := &dkg.SecretCommits{Index: 0, Commitments: fake, SessionID: sc.SessionID}
			bad.Signature, _ = schnorr.Sign(suite, secs[0], bad.Hash(suite))
			sc = bad
		}
		scs = append(scs, sc)
	}
	var ccs []*dkg.ComplaintCommits
	for _, sc := range scs {
		for i, g := range gens {
			if uint32(i) == sc.Index {
				continue
			}
			if cc, _ := g.ProcessSecretCommits(sc); cc != nil {
				ccs = append(ccs, cc)
			}
		}
	}
	deliverSC := func() {
		for i, g := range gens {
			if i != 0 {
				_, _ = g.ProcessSecretCommits(scs[0])
			}
		}
	}
	rcs := map[int]*dkg.ReconstructCommits{}
	deliverCC := func() {
		for _, cc := range ccs {
			for i, g := range gens {
				if rc, _ := g.ProcessComplaintCommits(cc); rc != nil {
					rcs[i] = rc
				}
			}
		}
	}
	deliverCC()
	if mode == "before" {
		deliverSC()
		deliverCC()
	}
	for _, i := range []int{1, 2, 3, 4} {
		func() {
			defer func() {
				if r := recover(); r != nil {
					fmt.Printf("node %d: PANIC %v\n", i, r)
				}
			}()
			for _, j := range []int{2, 3, 4} {
				if j != i {
					if err := gens[i].ProcessReconstructCommits(rcs[j]); err != nil {
						fmt.Printf("node %d, message of %d: %v\n", i, j, err)
					}
				}
			}
		}()
	}
	if mode == "after" {
		deliverSC()
	}
	var keys []kyber.Point
	for _, i := range []int{1, 2, 3, 4} {
		func() {
			defer func() {
				if r := recover(); r != nil {
					fmt.Printf("node %d: DistKeyShare PANIC %v\n", i, r)
				}
			}()
			if !gens[i].Finished() {
				fmt.Printf("node %d: not finished\n", i)
				return
			}
			dks, err := gens[i].DistKeyShare()
			if err != nil {
				fmt.Printf("node %d: %v\n", i, err)
				return
			}
			keys = append(keys, dks.Public())
			fmt.Printf("node %d: key %v\n", i, dks.Public())
		}()
	}
	same := len(keys) == 4
	for _, k := range keys {
		same = same && k.Equal(keys[0])
	}
	if same {
		fmt.Println("RESULT: all honest nodes hold the same key")
	} else {
		fmt.Println("RESULT: keys differ or a node could not finish")
	}
}
