//go:build ignore

// Replay for fixes/C10-certified-invalid-threshold.patch: go run this file inside a kyber checkout
// (public API only). Unpatched tree prints "true"; patched tree prints "false".
package main

import (
	"fmt"

	"go.dedis.ch/kyber/v4"
	"go.dedis.ch/kyber/v4/group/edwards25519"
	pvss "go.dedis.ch/kyber/v4/share/vss/pedersen"
)

func main() {
	suite := edwards25519.NewBlakeSHA256Ed25519()
	var secs []kyber.Scalar
	var pubs []kyber.Point
	for i := 0; i < 4; i++ {
		s := suite.Scalar().Pick(suite.RandomStream())
		secs, pubs = append(secs, s), append(pubs, suite.Point().Mul(s, nil))
	}
	dp := suite.Point().Mul(suite.Scalar().Pick(suite.RandomStream()), nil)
	v, _ := pvss.NewVerifier(suite, secs[0], dp, pubs)
	v.SetTimeout()
	fmt.Println("pedersen: DealCertified() without any deal or response:", v.DealCertified())
	// The Rabin variant (a deal announcing T=1 is certified for its recipient after one approval) needs a
	// malicious dealer, i.e. the verif hook Dealer.EncryptDealFor; it is replayed by `bin/check C10 quick`
	// (key rabin:DealCertified:threshold-out-of-range, replay file under /verif/replays).
}
