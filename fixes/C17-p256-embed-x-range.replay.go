//go:build ignore

// Replay for fixes/C17-p256-embed-x-range.patch: go run this file inside a kyber checkout.
// Unpatched tree: "re-decoding: invalid point…" then "Add: panic: crypto/elliptic: attempted operation on invalid point".
// Patched tree:   "re-decoding: <nil>" and "Add: ok".
package main

import (
	"encoding/hex"
	"fmt"

	"go.dedis.ch/kyber/v4/group/p256"
)

// prefixThenCounter: the 32 bytes of p+6 (x³-3x+b is a square there) and a sign byte, then a simple
// counter (never a constant infinite stream).
type prefixThenCounter struct{ n int }

var prefix, _ = hex.DecodeString("ffffffff0000000100000000000000000000000100000000000000000000000500")

func (s *prefixThenCounter) XORKeyStream(dst, src []byte) {
	for i := range src {
		k := byte(s.n * 37)
		if s.n < len(prefix) {
			k = prefix[s.n]
		}
		s.n++
		dst[i] = src[i] ^ k
	}
}

func main() {
	suite := p256.NewBlakeSHA256P256()
	P := suite.Point().Pick(&prefixThenCounter{})
	b, _ := P.MarshalBinary()
	fmt.Printf("picked %x\n", b)
	fmt.Println("re-decoding:", suite.Point().UnmarshalBinary(b))
	defer func() {
		if r := recover(); r != nil {
			fmt.Println("Add: panic:", r)
		}
	}()
	suite.Point().Add(P, suite.Point().Base())
	fmt.Println("Add: ok")
}
