//go:build ignore

// Replay for fixes/C11-leaving-dealer-responses.patch: go run this file inside a kyber checkout
// (public API only). Fresh DKG with 3 nodes (t=2), then resharing to {node0, node1, new node}: node 2
// leaves. New holder 0 files a (false) complaint against the leaving dealer 2.
// Unpatched tree: "leaving dealer ProcessResponses: error: ..." and no justification is produced;
// patched tree: the leaving dealer returns a justification bundle.
package main

import (
	"fmt"

	"go.dedis.ch/kyber/v4"
	"go.dedis.ch/kyber/v4/group/edwards25519"
	dkg "go.dedis.ch/kyber/v4/share/dkg/pedersen"
	"go.dedis.ch/kyber/v4/sign/schnorr"
)

func main() {
	suite := edwards25519.NewBlakeSHA256Ed25519()
	type party struct {
		s kyber.Scalar
		p kyber.Point
	}
	mk := func() party { s := suite.Scalar().Pick(suite.RandomStream()); return party{s, suite.Point().Mul(s, nil)} }
	ps := []party{mk(), mk(), mk(), mk()}
	old := []dkg.Node{{Index: 0, Public: ps[0].p}, {Index: 1, Public: ps[1].p}, {Index: 2, Public: ps[2].p}}
	nonce := dkg.GetNonce()
	var gens []*dkg.DistKeyGenerator
	for i := 0; i < 3; i++ {
		g, err := dkg.NewDistKeyHandler(&dkg.Config{Suite: suite, Longterm: ps[i].s, NewNodes: old, Threshold: 2, Nonce: nonce, Auth: schnorr.NewScheme(suite)})
		if err != nil {
			panic(err)
		}
		gens = append(gens, g)
	}
	var deals []*dkg.DealBundle
	for _, g := range gens {
		d, _ := g.Deals()
		deals = append(deals, d)
	}
	var shares []*dkg.DistKeyShare
	for _, g := range gens {
		if _, err := g.ProcessDeals(deals); err != nil {
			panic(err)
		}
	}
	for _, g := range gens {
		res, _, err := g.ProcessResponses(nil)
		if err != nil || res == nil {
			panic(fmt.Sprint("fresh dkg failed: ", err))
		}
		shares = append(shares, res.Key)
	}
	// resharing: node 2 leaves, party 3 joins
	newNodes := []dkg.Node{{Index: 0, Public: ps[0].p}, {Index: 1, Public: ps[1].p}, {Index: 2, Public: ps[3].p}}
	nonce2 := dkg.GetNonce()
	var rg []*dkg.DistKeyGenerator
	for i := 0; i < 4; i++ {
		c := &dkg.Config{Suite: suite, Longterm: ps[i].s, OldNodes: old, NewNodes: newNodes, Threshold: 2, OldThreshold: 2, Nonce: nonce2, Auth: schnorr.NewScheme(suite)}
		if i < 3 {
			c.Share = shares[i]
		} else {
			c.PublicCoeffs = shares[0].Commits
		}
		g, err := dkg.NewDistKeyHandler(c)
		if err != nil {
			panic(err)
		}
		rg = append(rg, g)
	}
	deals = nil
	for i := 0; i < 3; i++ {
		d, _ := rg[i].Deals()
		deals = append(deals, d)
	}
	for _, g := range rg {
		if _, err := g.ProcessDeals(deals); err != nil {
			panic(err)
		}
	}
	// holder 0 (faulty) complains about the honest leaving dealer 2
	complaint := &dkg.ResponseBundle{ShareIndex: 0, Responses: []dkg.Response{{DealerIndex: 2, Status: dkg.Complaint}}, SessionID: nonce2}
	_, just, err := rg[2].ProcessResponses([]*dkg.ResponseBundle{complaint})
	if err != nil {
		fmt.Println("leaving dealer ProcessResponses: error:", err)
	}
	fmt.Println("leaving dealer produced a justification:", just != nil)
}
