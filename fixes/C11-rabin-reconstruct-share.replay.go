//go:build ignore

// Replay for fixes/C11-rabin-reconstruct-share-index.patch and for the known finding
// "rabin:unverified-reconstruct-share": go run this file inside a kyber checkout.
// Rabin DKG, n=6, t=3. Dealer 0 publishes secret commitments that are wrong for participant 1 only; 1 complains
// (ComplaintCommits), everybody reveals the share dealer 0 gave it (ReconstructCommits) so that dealer 0's
// real polynomial is interpolated. Participant 4 is faulty too:
//   mode "index": it reveals its share under participant 2's evaluation point. A node that receives the messages
//                 of 2 and 4 among its first t holds fewer than t distinct points; share.RecoverPriPoly returns an
//                 error that ProcessReconstructCommits ignores, and the nil polynomial is dereferenced.
//                 Unpatched tree: "node 3: PANIC …".  Patched tree: the message is refused, all nodes agree.
//   mode "value": it reveals share+1 under its own point. Nothing in the message lets a receiver check the
//                 value (the blinding share is not revealed), so a node that uses it interpolates another
//                 polynomial than a node whose first t messages are honest: different distributed keys.
//                 (Both trees: "keys differ".  Known finding, not repaired.)
package main

import (
	"fmt"
	"os"

	"go.dedis.ch/kyber/v4"
	"go.dedis.ch/kyber/v4/group/edwards25519"
	"go.dedis.ch/kyber/v4/share"
	dkg "go.dedis.ch/kyber/v4/share/dkg/rabin"
	vss "go.dedis.ch/kyber/v4/share/vss/rabin"
	"go.dedis.ch/kyber/v4/sign/schnorr"
)

func cp(r *dkg.Response) *dkg.Response {
	in := *r.Response
	return &dkg.Response{Index: r.Index, Response: &in}
}

func main() {
	mode := "index"
	if len(os.Args) > 1 {
		mode = os.Args[1]
	}
	suite := edwards25519.NewBlakeSHA256Ed25519()
	const n, t = 6, 3
	secs := make([]kyber.Scalar, n)
	pubs := make([]kyber.Point, n)
	for i := range secs {
		secs[i] = suite.Scalar().Pick(suite.RandomStream())
		pubs[i] = suite.Point().Mul(secs[i], nil)
	}
	gens := make([]*dkg.DistKeyGenerator, n)
	for i := range gens {
		gens[i], _ = dkg.NewDistKeyGenerator(suite, secs[i], pubs, t)
	}
	var resps []*dkg.Response
	for _, g := range gens {
		deals, _ := g.Deals()
		for i, dd := range deals {
			r, err := gens[i].ProcessDeal(dd)
			if err != nil {
				panic(err)
			}
			resps = append(resps, r)
		}
	}
	for _, r := range resps {
		for i, g := range gens {
			if uint32(i) != r.Response.Index {
				_, _ = g.ProcessResponse(cp(r))
			}
		}
	}
	_ = vss.Response{}
	// secret commitments; dealer 0 adds h(x) = c·(x-1)(x-3)(x-4)(x-5)(x-6), which vanishes at the evaluation points
	// (index+1) of everybody but participant 1
	var scs []*dkg.SecretCommits
	for i, g := range gens {
		sc, err := g.SecretCommits()
		if err != nil {
			panic(err)
		}
		if i == 0 {
			h := []kyber.Scalar{suite.Scalar().Pick(suite.RandomStream())}
			for _, root := range []int64{1, 3, 4, 5, 6} {
				nh := make([]kyber.Scalar, len(h)+1)
				for k := range nh {
					nh[k] = suite.Scalar().Zero()
				}
				for k, hk := range h {
					nh[k+1] = suite.Scalar().Add(nh[k+1], hk)
					nh[k] = suite.Scalar().Sub(nh[k], suite.Scalar().Mul(hk, suite.Scalar().SetInt64(root)))
				}
				h = nh
			}
			var fake []kyber.Point
			for k := 0; k < len(h) || k < len(sc.Commitments); k++ {
				pt := suite.Point().Null()
				if k < len(h) {
					pt = suite.Point().Mul(h[k], nil)
				}
				if k < len(sc.Commitments) {
					pt = suite.Point().Add(pt, sc.Commitments[k])
				}
				fake = append(fake, pt)
			}
			bad := &dkg.SecretCommits{Index: 0, Commitments: fake, SessionID: sc.SessionID}
			bad.Signature, _ = schnorr.Sign(suite, secs[0], bad.Hash(suite))
			sc = bad
		}
		scs = append(scs, sc)
	}
	var ccs []*dkg.ComplaintCommits
	for _, sc := range scs {
		for i, g := range gens {
			if uint32(i) == sc.Index {
				continue
			}
			if cc, _ := g.ProcessSecretCommits(sc); cc != nil {
				ccs = append(ccs, cc)
			}
		}
	}
	fmt.Println("complaints about secret commitments:", len(ccs))
	rcs := map[int]*dkg.ReconstructCommits{}
	for _, cc := range ccs {
		for i, g := range gens {
			if rc, _ := g.ProcessComplaintCommits(cc); rc != nil {
				rcs[i] = rc
			}
		}
	}
	// participant 4 lies
	lie := &dkg.ReconstructCommits{SessionID: rcs[4].SessionID, Index: 4, DealerIndex: 0}
	if mode == "index" {
		lie.Share = &share.PriShare{I: 2, V: rcs[4].Share.V}
	} else {
		lie.Share = &share.PriShare{I: 4, V: suite.Scalar().Add(rcs[4].Share.V, suite.Scalar().One())}
	}
	lie.Signature, _ = schnorr.Sign(suite, secs[4], lie.Hash(suite))
	rcs[4] = lie
	// 2, 3, 4 and 5 reveal (the complainer never stored the wrong commitments, the dealer is the accused); every
	// node already holds its own message. Node 2 hears 3 and 5 first, nodes 3 and 5 hear 4 first.
	orders := map[int][]int{2: {3, 5, 4}, 3: {4, 2, 5}, 5: {4, 2, 3}}
	for _, i := range []int{2, 3, 5} {
		func() {
			defer func() {
				if r := recover(); r != nil {
					fmt.Printf("node %d: PANIC %v\n", i, r)
				}
			}()
			for _, j := range orders[i] {
				if err := gens[i].ProcessReconstructCommits(rcs[j]); err != nil {
					fmt.Printf("node %d refuses the message of %d: %v\n", i, j, err)
				}
			}
		}()
	}
	var keys []kyber.Point
	for _, i := range []int{2, 3, 5} {
		func() {
			defer func() {
				if r := recover(); r != nil {
					fmt.Printf("node %d: DistKeyShare PANIC %v\n", i, r)
				}
			}()
			if !gens[i].Finished() {
				fmt.Printf("node %d: not finished\n", i)
				return
			}
			dks, err := gens[i].DistKeyShare()
			if err != nil {
				fmt.Printf("node %d: %v\n", i, err)
				return
			}
			keys = append(keys, dks.Public())
			fmt.Printf("node %d: key %v\n", i, dks.Public())
		}()
	}
	same := len(keys) == 3
	for _, k := range keys {
		same = same && k.Equal(keys[0])
	}
	if same {
		fmt.Println("RESULT: all honest nodes hold the same key")
	} else {
		fmt.Println("RESULT: keys differ or a node could not finish")
	}
}
