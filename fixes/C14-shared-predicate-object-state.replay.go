//go:build ignore

// Replay for fixes/C14-shared-predicate-object-state.patch:
//   cd /verif/harness && GOFLAGS=-mod=mod GOPROXY=off go run /verif/fixes/C14-shared-predicate-object-state.replay.go
// Unpatched tree: "Or(r,r) same object choice 0 verify: invalid proof: commit mismatch" (a true statement,
// honestly proved, is rejected). Patched tree: every line ends in "<nil>".
package main

import (
	"fmt"

	"go.dedis.ch/kyber/v4"
	"go.dedis.ch/kyber/v4/group/edwards25519"
	"go.dedis.ch/kyber/v4/proof"
)

func main() {
	suite := edwards25519.NewBlakeSHA256Ed25519()
	rnd := suite.RandomStream()
	x := suite.Scalar().Pick(rnd)
	B := suite.Point().Base()
	X := suite.Point().Mul(x, nil)
	sval := map[string]kyber.Scalar{"x": x}
	pval := map[string]kyber.Point{"B": B, "X": X}
	r := proof.Rep("X", "x", "B")
	for _, tc := range []struct {
		name string
		p    proof.Predicate
	}{{"Or(r,r) same object", proof.Or(r, r)}, {"Or(r,r') distinct objects", proof.Or(proof.Rep("X", "x", "B"), proof.Rep("X", "x", "B"))},
		{"And(r,r) same object", proof.And(r, r)}} {
		for ch := 0; ch < 2; ch++ {
			cm := map[proof.Predicate]int{tc.p: ch}
			pr, err := proof.HashProve(suite, "t", tc.p.Prover(suite, sval, pval, cm))
			if err != nil {
				fmt.Println(tc.name, ch, "prove error:", err)
				continue
			}
			fmt.Println(tc.name, "choice", ch, "verify:", proof.HashVerify(suite, "t", tc.p.Verifier(suite, pval), pr))
		}
	}
}
