//go:build ignore

// Replay for fixes/C13-decshare-index.patch: go run this file inside a kyber checkout (public API only).
// Unpatched tree prints
//   VerifyDecShare(index altered): <nil>
//   RecoverSecret: err = <nil>, equals secret*G: false
// patched tree prints a verification error and "RecoverSecret: err = didn't verify: not enough shares to recover secret".
package main

import (
	"fmt"

	"go.dedis.ch/kyber/v4"
	"go.dedis.ch/kyber/v4/group/edwards25519"
	"go.dedis.ch/kyber/v4/share/pvss"
)

func main() {
	suite := edwards25519.NewBlakeSHA256Ed25519()
	n, t := uint32(5), uint32(3)
	H := suite.Point().Pick(suite.XOF([]byte("H")))
	x := make([]kyber.Scalar, n)
	X := make([]kyber.Point, n)
	for i := range x {
		x[i] = suite.Scalar().Pick(suite.RandomStream())
		X[i] = suite.Point().Mul(x[i], nil)
	}
	secret := suite.Scalar().Pick(suite.RandomStream())
	E, pub, err := pvss.EncShares(suite, H, X, secret, t)
	if err != nil {
		panic(err)
	}
	var D []*pvss.PubVerShare
	for i := uint32(0); i < t; i++ {
		d, err := pvss.DecShare(suite, H, X[i], pub.Eval(i).V, x[i], E[i].P.C, E[i])
		if err != nil {
			panic(err)
		}
		D = append(D, d)
	}
	D[0].S.I = 4 // the only change: the index field of one decrypted share
	fmt.Println("VerifyDecShare(index altered):", pvss.VerifyDecShare(suite, nil, X[0], E[0], D[0]))
	rec, err := pvss.RecoverSecret(suite, nil, X[:t], E[:t], D, t, n)
	if err != nil {
		fmt.Println("RecoverSecret: err =", err)
		return
	}
	fmt.Println("RecoverSecret: err = <nil>, equals secret*G:", rec.Equal(suite.Point().Mul(secret, nil)))
}
