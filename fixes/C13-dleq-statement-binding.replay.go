//go:build ignore

// Replay for fixes/C13-dleq-statement-binding.patch: go run this file inside a kyber checkout.
// PVSS, n=3, t=2. Trustee 1 knows its key but submits a WRONG decrypted share with a proof built by the classic
// weak-Fiat-Shamir trick: commit (VG = vG, VH arbitrary), compute the challenge c (which did not cover the
// decrypted share), r = v - c·x, and only then solve the second verification equation for the share:
// S' = r^-1 (VH - c·sX).
// Unpatched tree: "VerifyDecShare(forged): <nil>", RecoverSecret returns without error, "recovered == secret*G: false".
// Patched tree:   "VerifyDecShare(forged): didn't verify: ...", RecoverSecret refuses (too few shares).
package main

import (
	"fmt"

	"go.dedis.ch/kyber/v4"
	"go.dedis.ch/kyber/v4/group/edwards25519"
	"go.dedis.ch/kyber/v4/proof/dleq"
	"go.dedis.ch/kyber/v4/share"
	"go.dedis.ch/kyber/v4/share/pvss"
)

func main() {
	suite := edwards25519.NewBlakeSHA256Ed25519()
	G := suite.Point().Base()
	H := suite.Point().Pick(suite.XOF([]byte("H")))
	const n, t = 3, 2
	x := make([]kyber.Scalar, n)
	X := make([]kyber.Point, n)
	for i := range x {
		x[i] = suite.Scalar().Pick(suite.RandomStream())
		X[i] = suite.Point().Mul(x[i], nil)
	}
	secret := suite.Scalar().Pick(suite.RandomStream())
	enc, pub, _ := pvss.EncShares(suite, H, X, secret, t)
	sH := make([]kyber.Point, n)
	for i := range sH {
		sH[i] = pub.Eval(uint32(i)).V
	}
	K, E, _ := pvss.VerifyEncShareBatch(suite, H, X, sH, pub, enc)
	d0, _ := pvss.DecShare(suite, H, K[0], sH[0], x[0], E[0].P.C, E[0])
	v := suite.Scalar().Pick(suite.RandomStream())
	VG := suite.Point().Mul(v, G)
	VH := suite.Point().Pick(suite.RandomStream())
	h := suite.Hash() // the challenge as the unpatched VerifyDecShare computes it
	X[1].MarshalTo(h)
	E[1].S.V.MarshalTo(h)
	VG.MarshalTo(h)
	VH.MarshalTo(h)
	c := suite.Scalar().Pick(suite.XOF(h.Sum(nil)))
	r := suite.Scalar().Sub(v, suite.Scalar().Mul(c, x[1]))
	S := suite.Point().Mul(suite.Scalar().Inv(r), suite.Point().Sub(VH, suite.Point().Mul(c, E[1].S.V)))
	forged := &pvss.PubVerShare{S: share.PubShare{I: E[1].S.I, V: S}, P: dleq.Proof{C: c, R: r, VG: VG, VH: VH}}
	honest1, _ := pvss.DecShare(suite, H, K[1], sH[1], x[1], E[1].P.C, E[1])
	fmt.Println("forged share differs from the true decryption:", !S.Equal(honest1.S.V))
	fmt.Println("VerifyDecShare(forged):", pvss.VerifyDecShare(suite, G, X[1], E[1], forged))
	rec, err := pvss.RecoverSecret(suite, G, K[:2], E[:2], []*pvss.PubVerShare{d0, forged}, t, n)
	fmt.Println("RecoverSecret err:", err, " recovered == secret*G:", err == nil && rec.Equal(suite.Point().Mul(secret, nil)))
}
