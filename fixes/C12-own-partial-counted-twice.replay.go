//go:build ignore

// Replay for fixes/C12-own-partial-counted-twice.patch: go run this file inside a kyber checkout (public API only).
// Unpatched tree prints "EnoughPartialSig: true" followed by a Signature error; patched tree prints "EnoughPartialSig: false".
package main

import (
	"fmt"

	"go.dedis.ch/kyber/v4"
	"go.dedis.ch/kyber/v4/group/edwards25519"
	"go.dedis.ch/kyber/v4/share"
	"go.dedis.ch/kyber/v4/sign/dss"
)

type ks struct {
	sh *share.PriShare
	cm []kyber.Point
}

func (k *ks) PriShare() *share.PriShare  { return k.sh }
func (k *ks) Commitments() []kyber.Point { return k.cm }

func main() {
	suite := edwards25519.NewBlakeSHA256Ed25519()
	n, t := uint32(3), uint32(2)
	secs := make([]kyber.Scalar, n)
	pubs := make([]kyber.Point, n)
	for i := range secs {
		secs[i] = suite.Scalar().Pick(suite.RandomStream())
		pubs[i] = suite.Point().Mul(secs[i], nil)
	}
	dist := func() []dss.DistKeyShare {
		p := share.NewPriPoly(suite, t, nil, suite.RandomStream())
		_, cm := p.Commit(nil).Info()
		out := make([]dss.DistKeyShare, n)
		for i, s := range p.Shares(n) {
			out[i] = &ks{s, cm}
		}
		return out
	}
	long, random := dist(), dist()
	node0 := func() *dss.DSS {
		d, err := dss.NewDSS(suite, secs[0], pubs, long[0], random[0], []byte("msg"), t)
		if err != nil {
			panic(err)
		}
		return d
	}
	ps0, _ := node0().PartialSig() // issued by another instance of node 0
	d := node0()
	fmt.Println("ProcessPartialSig(own partial from the other instance):", d.ProcessPartialSig(ps0))
	d.PartialSig()
	fmt.Println("EnoughPartialSig:", d.EnoughPartialSig(), "(one distinct partial, t = 2)")
	_, err := d.Signature()
	fmt.Println("Signature:", err)
}
