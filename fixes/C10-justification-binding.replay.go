//go:build ignore

// Replay for fixes/C10-justification-binding.patch: go run this file inside a kyber checkout
// (public API only). Unpatched tree prints "accepted: <nil> complaint lifted: true" for both
// variants; patched tree prints an error and "complaint lifted: false".
package main

import (
	"fmt"

	"go.dedis.ch/kyber/v4"
	"go.dedis.ch/kyber/v4/group/edwards25519"
	pvss "go.dedis.ch/kyber/v4/share/vss/pedersen"
	rvss "go.dedis.ch/kyber/v4/share/vss/rabin"
)

func main() {
	suite := edwards25519.NewBlakeSHA256Ed25519()
	n := 4
	var secs []kyber.Scalar
	var pubs []kyber.Point
	for i := 0; i < n; i++ {
		s := suite.Scalar().Pick(suite.RandomStream())
		secs, pubs = append(secs, s), append(pubs, suite.Point().Mul(s, nil))
	}
	dl := suite.Scalar().Pick(suite.RandomStream())
	dp := suite.Point().Mul(dl, nil)
	secret := suite.Scalar().Pick(suite.RandomStream())
	{
		d, _ := pvss.NewDealer(suite, dl, secret, pubs, 3)
		v1, _ := pvss.NewVerifier(suite, secs[1], dp, pubs)
		e1, _ := d.EncryptedDeal(1)
		if _, err := v1.ProcessEncryptedDeal(e1); err != nil {
			panic(err)
		}
		v1.UnsafeSetResponseDKG(0, false) // stands for a complaint of verifier 0
		other, _ := d.PlaintextDeal(2)
		err := v1.ProcessJustification(&pvss.Justification{SessionID: d.SessionID(), Index: 0, Deal: other, Signature: []byte("garbage")})
		fmt.Println("pedersen: accepted:", err, "complaint lifted:", v1.Responses()[0].StatusApproved)
	}
	{
		d, _ := rvss.NewDealer(suite, dl, secret, pubs, 3)
		vs := make([]*rvss.Verifier, n)
		var resp0 *rvss.Response
		for i := 0; i < n; i++ {
			vs[i], _ = rvss.NewVerifier(suite, secs[i], dp, pubs)
			e, _ := d.EncryptedDeal(i)
			r, err := vs[i].ProcessEncryptedDeal(e)
			if err != nil {
				panic(err)
			}
			if i == 0 {
				resp0 = r
			}
		}
		_ = resp0
		// verifier 0 "complains" at verifier 1 (bypass as used by share/dkg/rabin)
		vs[1].UnsafeSetResponseDKG(0, false)
		other, _ := d.PlaintextDeal(2)
		err := vs[1].ProcessJustification(&rvss.Justification{SessionID: d.SessionID(), Index: 0, Deal: other, Signature: []byte("garbage")})
		// the complaint of 0 now counts as an approval: with 1, 2, 3 approving, EnoughApprovals needs it only for t=4,
		// visible through DealCertified after everybody answered
		vs[1].UnsafeSetResponseDKG(2, true)
		vs[1].UnsafeSetResponseDKG(3, true)
		fmt.Println("rabin: accepted:", err, "complaint lifted:", err == nil, "certified:", vs[1].DealCertified())
	}
}
