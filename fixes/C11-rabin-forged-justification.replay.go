//go:build ignore

// Replay for fixes/C11-rabin-forged-justification.patch: go run this file inside a kyber checkout.
// Rabin DKG, n=3, t=2, everybody honest except participant 1, which (a) answers dealer 2's deal with a
// correctly signed complaint although the deal is fine and (b) broadcasts, in dealer 2's name, a
// "justification" that reveals a wrong share and carries a garbage signature. Node 0 receives (b) before
// the dealer's real answer.
// Unpatched tree: "node 0 QUAL [0 1]" / "node 2 QUAL [0 1 2]"  (honest nodes disagree; an honest dealer with one
//                 complaint is disqualified at node 0).
// Patched tree:   both print [0 1 2].
package main

import (
	"fmt"
	"sort"

	"go.dedis.ch/kyber/v4"
	"go.dedis.ch/kyber/v4/group/edwards25519"
	"go.dedis.ch/kyber/v4/share"
	dkg "go.dedis.ch/kyber/v4/share/dkg/rabin"
	vss "go.dedis.ch/kyber/v4/share/vss/rabin"
	"go.dedis.ch/kyber/v4/sign/schnorr"
)

func cp(r *dkg.Response) *dkg.Response { in := *r.Response; return &dkg.Response{Index: r.Index, Response: &in} }

func main() {
	suite := edwards25519.NewBlakeSHA256Ed25519()
	const n, t = 3, 2
	secs := make([]kyber.Scalar, n)
	pubs := make([]kyber.Point, n)
	for i := range secs {
		secs[i] = suite.Scalar().Pick(suite.RandomStream())
		pubs[i] = suite.Point().Mul(secs[i], nil)
	}
	gens := make([]*dkg.DistKeyGenerator, n)
	for i := range gens {
		gens[i], _ = dkg.NewDistKeyGenerator(suite, secs[i], pubs, t)
	}
	var resps []*dkg.Response
	var dealFor1From2 *vss.EncryptedDeal
	for d, g := range gens {
		deals, _ := g.Deals()
		for i, dd := range deals {
			if d == 2 && i == 1 {
				dealFor1From2 = dd.Deal
			}
			r, err := gens[i].ProcessDeal(dd)
			if err != nil {
				panic(err)
			}
			if d == 2 && i == 1 { // the false complaint of participant 1 about dealer 2
				fr := &vss.Response{SessionID: r.Response.SessionID, Index: 1, Approved: false}
				fr.Signature, _ = schnorr.Sign(suite, secs[1], fr.Hash(suite))
				r = &dkg.Response{Index: 2, Response: fr}
			}
			resps = append(resps, r)
		}
	}
	_ = dealFor1From2
	var justs []*dkg.Justification
	for _, r := range resps {
		for i, g := range gens {
			if uint32(i) == r.Response.Index {
				continue
			}
			if j, _ := g.ProcessResponse(cp(r)); j != nil {
				justs = append(justs, j)
			}
		}
	}
	// the forged justification: the real (public) commitments, a wrong share, no dealer signature
	real := justs[0].Justification.Deal
	bad := *real
	bad.SecShare = &share.PriShare{I: real.SecShare.I, V: suite.Scalar().Add(real.SecShare.V, suite.Scalar().One())}
	forged := &dkg.Justification{Index: 2, Justification: &vss.Justification{SessionID: real.SessionID, Index: 1, Deal: &bad, Signature: []byte("not the dealer")}}
	for _, i := range []int{0, 2} {
		fmt.Printf("node %d forged justification: %v\n", i, gens[i].ProcessJustification(forged))
	}
	fmt.Printf("node 0 real justification: %v\n", gens[0].ProcessJustification(justs[0]))
	for _, i := range []int{0, 2} {
		q := gens[i].QUAL()
		sort.Slice(q, func(a, b int) bool { return q[a] < q[b] })
		fmt.Printf("node %d QUAL %v\n", i, q)
	}
}
