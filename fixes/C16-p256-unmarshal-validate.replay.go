//go:build ignore

// Replay for fixes/C16-p256-unmarshal-validate.patch: go run this file inside a kyber checkout.
// Unpatched tree: panics in crypto/elliptic ("attempted operation on invalid point").
package main

import (
	"fmt"

	"go.dedis.ch/kyber/v4/encrypt/ecies"
	"go.dedis.ch/kyber/v4/group/p256"
)

func main() {
	suite := p256.NewBlakeSHA256P256()
	x := suite.Scalar().Pick(suite.RandomStream())
	X := suite.Point().Mul(x, nil)
	ct, _ := ecies.Encrypt(suite, X, []byte("hello"), nil)
	ct[1] ^= 1 // one bit of the ephemeral point
	pt, err := ecies.Decrypt(suite, x, ct, nil)
	fmt.Printf("Decrypt: %q err=%v\n", pt, err)
}
