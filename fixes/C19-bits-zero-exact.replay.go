//go:build ignore

// Replay for fixes/C19-bits-zero-exact.patch: go run this file inside a kyber checkout.
// Unpatched tree: panics with "index out of range [0] with length 0".
package main

import (
	"fmt"

	"go.dedis.ch/kyber/v4/util/random"
)

func main() {
	b := random.Bits(0, true, random.New())
	fmt.Printf("random.Bits(0, true) = %x (len %d)\n", b, len(b))
}
