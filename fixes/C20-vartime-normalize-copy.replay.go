//go:build ignore

// Replay for fixes/C20-vartime-normalize-copy.patch: inside a kyber checkout run
//     go run -race C20-vartime-normalize-copy.replay.go
// Unpatched tree: "WARNING: DATA RACE" reports (mod.Int.Inv <- normalize <- MarshalBinary) and then either
// "N of 1600 results differ from the sequential encoding" or a crash of the corrupted point in encodePoint
// ("panic: runtime error: slice bounds out of range [-32:]"); patched tree: no report, "0 of 1600".
package main

import (
	"bytes"
	"fmt"
	"sync"
	"sync/atomic"

	"go.dedis.ch/kyber/v4/group/edwards25519vartime"
)

func main() {
	curve := new(edwards25519vartime.ExtendedCurve).InitCurve(edwards25519vartime.ParamEd25519(), false)
	mk := func() interface{ MarshalBinary() ([]byte, error) } {
		a := curve.Scalar().SetInt64(1234567)
		b := curve.Scalar().SetInt64(7654321)
		return curve.Point().Add(curve.Point().Mul(a, nil), curve.Point().Mul(b, nil)) // Z != 1
	}
	want, _ := mk().MarshalBinary()
	var bad int64
	for round := 0; round < 25; round++ {
		P := mk() // a fresh, not yet normalised shared point
		var wg sync.WaitGroup
		start := make(chan struct{})
		for g := 0; g < 8; g++ {
			wg.Add(1)
			go func() {
				defer wg.Done()
				<-start
				for i := 0; i < 8; i++ {
					if got, _ := P.MarshalBinary(); !bytes.Equal(got, want) {
						atomic.AddInt64(&bad, 1)
					}
				}
			}()
		}
		close(start)
		wg.Wait()
	}
	fmt.Printf("%d of 1600 results differ from the sequential encoding\n", bad)
}
