//go:build ignore

// Replay for fixes/C09-tbls-recover-duplicates.patch: go run this file inside a kyber checkout
// (public API only). Unpatched tree prints
//   [p0 p0 p1 p2 p3]: share: not enough good public shares to reconstruct secret commitment
// patched tree prints "[p0 p0 p1 p2 p3]: recovered, verifies under the group key: true".
package main

import (
	"fmt"

	"go.dedis.ch/kyber/v4/pairing/bn256"
	"go.dedis.ch/kyber/v4/share"
	"go.dedis.ch/kyber/v4/sign/tbls"
)

func main() {
	suite := bn256.NewSuite()
	scheme := tbls.NewThresholdSchemeOnG1(suite)
	t, n := uint32(3), uint32(5)
	msg := []byte("hello")
	pri := share.NewPriPoly(suite.G2(), t, nil, suite.RandomStream())
	pub := pri.Commit(suite.G2().Point().Base())
	var p [][]byte
	for _, sh := range pri.Shares(n) {
		s, err := scheme.Sign(sh, msg)
		if err != nil {
			panic(err)
		}
		p = append(p, s)
	}
	sig, err := scheme.Recover(pub, msg, [][]byte{p[0], p[0], p[1], p[2], p[3]}, t, n)
	if err != nil {
		fmt.Println("[p0 p0 p1 p2 p3]:", err)
		return
	}
	fmt.Println("[p0 p0 p1 p2 p3]: recovered, verifies under the group key:", scheme.VerifyRecovered(pub.Commit(), msg, sig) == nil)
}
