//go:build ignore

// Replay for the known finding C11 "rabin:unjustified-dealer-qualified": go run this file inside a kyber checkout.
// Rabin DKG, n=4, t=3. Dealer 0 gives honest participant 3 a share that does not match its commitments and
// never answers the complaint. Expected by the property (and by the New-DKG protocol: a dealer that does not
// answer a complaint is disqualified): dealer 0 is not in QUAL. Observed: QUAL = [0 1 2 3] at every node,
// because the Rabin VSS aggregator certifies a deal as soon as t approvals are in and tolerates standing
// complaints; nodes 1 and 2 finish with a key that contains dealer 0's contribution, participant 3 holds
// no valid share of dealer 0's polynomial and cannot finish ("dkg: protocol not finished: 0 commitments missing").
package main

import (
	"fmt"
	"reflect"
	"sort"
	"unsafe"

	"go.dedis.ch/kyber/v4"
	"go.dedis.ch/kyber/v4/group/edwards25519"
	dkg "go.dedis.ch/kyber/v4/share/dkg/rabin"
	vss "go.dedis.ch/kyber/v4/share/vss/rabin"
)

func dealerOf(g *dkg.DistKeyGenerator) *vss.Dealer {
	rf := reflect.ValueOf(g).Elem().FieldByName("dealer")
	return reflect.NewAt(rf.Type(), unsafe.Pointer(rf.UnsafeAddr())).Elem().Interface().(*vss.Dealer)
}

func cp(r *dkg.Response) *dkg.Response { in := *r.Response; return &dkg.Response{Index: r.Index, Response: &in} }

func main() {
	suite := edwards25519.NewBlakeSHA256Ed25519()
	const n, t = 4, 3
	secs := make([]kyber.Scalar, n)
	pubs := make([]kyber.Point, n)
	for i := range secs {
		secs[i] = suite.Scalar().Pick(suite.RandomStream())
		pubs[i] = suite.Point().Mul(secs[i], nil)
	}
	gens := make([]*dkg.DistKeyGenerator, n)
	for i := range gens {
		gens[i], _ = dkg.NewDistKeyGenerator(suite, secs[i], pubs, t)
	}
	// dealer 0 corrupts the share meant for participant 3
	pd, _ := dealerOf(gens[0]).PlaintextDeal(3)
	pd.SecShare.V = suite.Scalar().Add(pd.SecShare.V, suite.Scalar().One())
	var resps []*dkg.Response
	for _, g := range gens {
		deals, _ := g.Deals()
		for i, dd := range deals {
			r, err := gens[i].ProcessDeal(dd)
			if err != nil {
				panic(err)
			}
			if !r.Response.Approved {
				fmt.Printf("participant %d complains about dealer %d\n", i, r.Index)
			}
			resps = append(resps, r)
		}
	}
	for _, r := range resps {
		for i, g := range gens {
			if uint32(i) == r.Response.Index {
				continue
			}
			g.ProcessResponse(cp(r)) // dealer 0 stays silent: the justification it computes is never sent
		}
	}
	for i := 1; i < n; i++ {
		gens[i].SetTimeout()
		q := gens[i].QUAL()
		sort.Slice(q, func(a, b int) bool { return q[a] < q[b] })
		fmt.Printf("node %d QUAL %v\n", i, q)
	}
	// the rest of the protocol among 1..3 (dealer 0 takes part in it as well, it is in QUAL)
	gens[0].SetTimeout()
	var scs []*dkg.SecretCommits
	for _, g := range gens {
		if sc, err := g.SecretCommits(); err == nil {
			scs = append(scs, sc)
		}
	}
	for _, sc := range scs {
		for i, g := range gens {
			if uint32(i) != sc.Index {
				g.ProcessSecretCommits(sc)
			}
		}
	}
	for i := 1; i < n; i++ {
		func() {
			defer func() {
				if r := recover(); r != nil {
					fmt.Printf("node %d DistKeyShare panics: %v\n", i, r)
				}
			}()
			_, err := gens[i].DistKeyShare()
			fmt.Printf("node %d DistKeyShare err=%v\n", i, err)
		}()
	}
}
