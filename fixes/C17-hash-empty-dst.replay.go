//go:build ignore

// Replay for fixes/C17-hash-empty-dst.patch: go run this file inside a kyber checkout.
// Unpatched tree: "panic: runtime error: slice bounds out of range [:48] with capacity 0"; patched: prints a point.
package main

import (
	"fmt"

	"go.dedis.ch/kyber/v4"
	"go.dedis.ch/kyber/v4/group/edwards25519"
)

func main() {
	suite := edwards25519.NewBlakeSHA256Ed25519()
	defer func() {
		if r := recover(); r != nil {
			fmt.Println("panic:", r)
		}
	}()
	h := suite.Point().(interface {
		Hash(m []byte, dst string) kyber.Point
	})
	fmt.Println(h.Hash([]byte("msg"), ""))
}
