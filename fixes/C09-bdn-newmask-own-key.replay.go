//go:build ignore

// Replay for fixes/C09-bdn-newmask-own-key.patch: go run this file inside a kyber checkout
// (public API only). Unpatched tree prints "AggregateSignatures panics: runtime error: index out of
// range [0] with length 0"; patched tree prints "aggregate verifies under the aggregate key: true".
package main

import (
	"fmt"

	"go.dedis.ch/kyber/v4"
	"go.dedis.ch/kyber/v4/pairing/bn256"
	"go.dedis.ch/kyber/v4/sign/bdn"
)

func main() {
	suite := bn256.NewSuite()
	scheme := bdn.NewSchemeOnG1(suite)
	msg := []byte("hello")
	var pubs []kyber.Point
	var sigs [][]byte
	for i := 0; i < 3; i++ {
		x, X := scheme.NewKeyPair(suite.RandomStream())
		s, err := scheme.Sign(x, msg)
		if err != nil {
			panic(err)
		}
		pubs, sigs = append(pubs, X), append(sigs, s)
	}
	mask, err := bdn.NewMask(suite.G2(), pubs, pubs[0]) // own key given
	if err != nil {
		panic(err)
	}
	defer func() {
		if r := recover(); r != nil {
			fmt.Println("AggregateSignatures panics:", r)
		}
	}()
	agg, err := scheme.AggregateSignatures(sigs[:1], mask)
	if err != nil {
		panic(err)
	}
	key, err := scheme.AggregatePublicKeys(mask)
	if err != nil {
		panic(err)
	}
	b, _ := agg.MarshalBinary()
	fmt.Println("aggregate verifies under the aggregate key:", scheme.Verify(key, msg, b) == nil)
}
