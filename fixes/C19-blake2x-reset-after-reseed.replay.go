//go:build ignore

// Replay for fixes/C19-blake2x-reset-after-reseed.patch: go run this file inside a kyber checkout.
// Unpatched tree: prints "Reset after Reseed: DIFFERENT" for blake2xb and blake2xs.
package main

import (
	"bytes"
	"fmt"

	"go.dedis.ch/kyber/v4"
	"go.dedis.ch/kyber/v4/xof/blake2xb"
	"go.dedis.ch/kyber/v4/xof/blake2xs"
	"go.dedis.ch/kyber/v4/xof/keccak"
)

func main() {
	for name, mk := range map[string]func([]byte) kyber.XOF{"blake2xb": blake2xb.New, "blake2xs": blake2xs.New, "keccak": keccak.New} {
		seed := make([]byte, 100)
		first := make([]byte, 16)
		mk(seed).Read(first)
		x := mk(seed)
		a, b := make([]byte, 16), make([]byte, 16)
		x.Read(a)
		x.Reseed()
		x.Reset()
		x.Read(b)
		res := "same as a fresh New(seed)"
		if !bytes.Equal(first, b) {
			res = "DIFFERENT"
		}
		fmt.Printf("%s Reset after Reseed: %s (fresh %x, after reset %x)\n", name, res, first, b)
	}
}
