//go:build ignore

// Replay for fixes/C17-elligator-limb-compare.patch. The map is package-private, so this replay needs the
// verification hook: copy /verif's group/edwards25519/export_verif_h2c.go into the checkout and
//     go run -tags verif C17-elligator-limb-compare.replay.go
// Unpatched tree: "decodes: false" (the returned coordinates are off the curve); patched: "decodes: true".
// `bin/check C17 quick` replays the same inputs from harness/corpus/c17_elligator_u.txt.
package main

import (
	"encoding/hex"
	"fmt"

	"go.dedis.ch/kyber/v4/group/edwards25519"
)

func main() {
	suite := edwards25519.NewBlakeSHA256Ed25519()
	for _, h := range []string{
		"5b9d0e000000000002000000000000004466d00d884d9b9d004b23b607348119",
		"29cd0f000000000008000000000000007592481b5bb7e64a512832f4917bcd4e"} {
		var u [32]byte
		b, _ := hex.DecodeString(h)
		copy(u[:], b)
		p := edwards25519.VerifMapToCurveElligator2(u)
		enc, _ := p.MarshalBinary()
		fmt.Printf("u=%s -> %x decodes: %v\n", h, enc, suite.Point().UnmarshalBinary(enc) == nil)
	}
}
