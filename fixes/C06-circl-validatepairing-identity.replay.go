//go:build ignore

// Replay for fixes/C06-circl-validatepairing-identity.patch: go run this file inside a kyber checkout
// (public API only). Unpatched tree prints
//   ValidatePairing(H, X, O, B2) = true   Pair(H,X) == Pair(O,B2): false
//   identity point accepted as BLS signature: true
// patched tree prints false / false / false.
package main

import (
	"fmt"

	"go.dedis.ch/kyber/v4/pairing/bls12381/circl"
	"go.dedis.ch/kyber/v4/sign/bls"
)

func main() {
	s := circl.NewSuite()
	x := s.G2().Scalar().SetInt64(12345)
	X := s.G2().Point().Mul(x, nil)
	H := s.G1().Point().Pick(s.RandomStream())
	O := s.G1().Point().Null()
	B2 := s.G2().Point().Base()
	fmt.Println("ValidatePairing(H, X, O, B2) =", s.ValidatePairing(H, X, O, B2),
		"  Pair(H,X) == Pair(O,B2):", s.Pair(H, X).Equal(s.Pair(O, B2)))
	id, _ := O.MarshalBinary()
	fmt.Println("identity point accepted as BLS signature:", bls.NewSchemeOnG1(s).Verify(X, []byte("any message"), id) == nil)
}
