//go:build ignore

// Replay for fixes/C20-kilic-pair-clone.patch: inside a kyber checkout run
//     go run -race C20-kilic-pair-clone.replay.go
// Unpatched tree: "WARNING: DATA RACE" ((*fe).set <- G1.Affine <- Engine.AddPair <- Suite.Pair); patched: silent.
package main

import (
	"fmt"
	"sync"

	"go.dedis.ch/kyber/v4/pairing/bls12381/kilic"
)

func main() {
	s := kilic.NewBLS12381Suite()
	a, b := s.G1().Scalar().SetInt64(12345), s.G1().Scalar().SetInt64(67890)
	P1 := s.G1().Point().Add(s.G1().Point().Mul(a, nil), s.G1().Point().Mul(b, nil)) // not affine
	P2 := s.G2().Point().Add(s.G2().Point().Mul(b, nil), s.G2().Point().Mul(a, nil))
	var wg sync.WaitGroup
	for g := 0; g < 8; g++ {
		wg.Add(1)
		go func() { defer wg.Done(); s.Pair(P1, P2) }()
	}
	wg.Wait()
	fmt.Println("done")
}
