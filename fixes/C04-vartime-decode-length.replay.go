//go:build ignore

// Replay for fixes/C04-vartime-decode-length.patch: go run this file inside a kyber checkout.
// Unpatched tree: "1 byte: err=<nil>", "33 bytes: err=<nil>", then
//                 "empty: panic: runtime error: index out of range [0] with length 0".
// Patched tree:   all three print an error.
package main

import (
	"fmt"

	"go.dedis.ch/kyber/v4/group/edwards25519vartime"
)

func main() {
	suite := edwards25519vartime.NewBlakeSHA256Ed25519(false)
	fmt.Println("1 byte: err =", suite.Point().UnmarshalBinary([]byte{0x7f}))
	fmt.Println("33 bytes: err =", suite.Point().UnmarshalBinary(make([]byte, 33)))
	defer func() {
		if r := recover(); r != nil {
			fmt.Println("empty: panic:", r)
		}
	}()
	fmt.Println("empty: err =", suite.Point().UnmarshalBinary([]byte{}))
}
