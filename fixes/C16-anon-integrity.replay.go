//go:build ignore

// Replay for fixes/C16-anon-integrity.patch: go run this file inside a kyber checkout.
// Unpatched tree: the forged ciphertext decrypts to "pay 900 to alice", garbage in the other member's
// slot is accepted, and the second decryption of the same buffer fails.
package main

import (
	"fmt"

	"go.dedis.ch/kyber/v4"
	"go.dedis.ch/kyber/v4/group/edwards25519"
	"go.dedis.ch/kyber/v4/sign/anon"
)

func main() {
	suite := edwards25519.NewBlakeSHA256Ed25519()
	x := suite.Scalar().Pick(suite.RandomStream())
	y := suite.Scalar().Pick(suite.RandomStream())
	set := anon.Set([]kyber.Point{suite.Point().Mul(x, nil), suite.Point().Mul(y, nil)})
	msg := []byte("pay 100 to alice")
	ct, _ := anon.Encrypt(suite, msg, set)
	hdr := suite.PointLen() + 2*suite.ScalarLen()

	// 1. alter the body, recompute the tag without any secret
	f := append([]byte{}, ct...)
	f[hdr+4] ^= '1' ^ '9'
	suite.XOF(f[hdr : len(f)-16]).Read(f[len(f)-16:])
	out, err := anon.Decrypt(suite, f, set, 0, x)
	fmt.Printf("1. forged body+tag: %q err=%v\n", out, err)

	// 2. garbage in the slot of member 1, read by member 0
	g := append([]byte{}, ct...)
	for i := 0; i < suite.ScalarLen(); i++ {
		g[suite.PointLen()+suite.ScalarLen()+i] ^= 0xff
	}
	out, err = anon.Decrypt(suite, g, set, 0, x)
	fmt.Printf("2. other member's slot destroyed: %q err=%v\n", out, err)

	// 3. decrypt the same buffer twice
	b := append([]byte{}, ct...)
	o1, e1 := anon.Decrypt(suite, b, set, 0, x)
	o2, e2 := anon.Decrypt(suite, b, set, 0, x)
	fmt.Printf("3. first %q %v; second on the same buffer %q %v\n", o1, e1, o2, e2)
}
