//go:build ignore

// Replay for fixes/C13-encshare-index.patch: go run this file inside a kyber checkout (public API only).
// Unpatched tree prints
//   VerifyEncShareBatch kept 5 of 5
//   RecoverSecret: err = <nil>, equals secret*G: false
// patched tree prints "VerifyEncShareBatch kept 3 of 5" (the two shares with exchanged indices are dropped).
package main

import (
	"fmt"

	"go.dedis.ch/kyber/v4"
	"go.dedis.ch/kyber/v4/group/edwards25519"
	"go.dedis.ch/kyber/v4/share/pvss"
)

func main() {
	suite := edwards25519.NewBlakeSHA256Ed25519()
	n, t := uint32(5), uint32(3)
	H := suite.Point().Pick(suite.XOF([]byte("H")))
	x := make([]kyber.Scalar, n)
	X := make([]kyber.Point, n)
	for i := range x {
		x[i] = suite.Scalar().Pick(suite.RandomStream())
		X[i] = suite.Point().Mul(x[i], nil)
	}
	secret := suite.Scalar().Pick(suite.RandomStream())
	E, pub, err := pvss.EncShares(suite, H, X, secret, t)
	if err != nil {
		panic(err)
	}
	sH := make([]kyber.Point, n)
	for i := range sH {
		sH[i] = pub.Eval(uint32(i)).V
	}
	E[0].S.I, E[1].S.I = 1, 0 // the only change: two index fields exchanged
	_, kept, err := pvss.VerifyEncShareBatch(suite, H, X, sH, pub, E)
	fmt.Println("VerifyEncShareBatch kept", len(kept), "of", n, err)
	var D []*pvss.PubVerShare
	for i := uint32(0); i < t; i++ {
		d, err := pvss.DecShare(suite, H, X[i], sH[i], x[i], E[i].P.C, E[i])
		if err != nil {
			panic(err)
		}
		D = append(D, d)
	}
	rec, err := pvss.RecoverSecret(suite, nil, X[:t], E[:t], D, t, n)
	if err != nil {
		fmt.Println("RecoverSecret: err =", err)
		return
	}
	fmt.Println("RecoverSecret: err = <nil>, equals secret*G:", rec.Equal(suite.Point().Mul(secret, nil)))
}
