//go:build ignore

// Replay for fixes/C10-deal-session-binding.patch: go run this file inside a kyber checkout.
// Pedersen VSS, n=3, t=2 (the Rabin variant has the same code and the same fix). The dealer (one long-term key) shares secret A with verifiers 1 and 2 and hands
// verifier 0 a self-consistent deal of ANOTHER polynomial (secret B, other commitments) labelled with the
// session identifier of A.
// Unpatched tree: verifier 0 approves, accepts the approvals of 1 and 2 (they carry A's identifier) and holds a
//                 certified deal whose share is not on the polynomial the others approved
//                 ("verifier 0 approved: true", "holds a certified deal: true", "... approved: false").
// Patched tree:   verifier 0 answers with a complaint and holds no deal ("verifier 0 approved: false",
//                 "holds a certified deal: false").
package main

import (
	"fmt"

	"go.dedis.ch/kyber/v4"
	"go.dedis.ch/kyber/v4/group/edwards25519"
	vss "go.dedis.ch/kyber/v4/share/vss/pedersen"
)

func main() {
	suite := edwards25519.NewBlakeSHA256Ed25519()
	const n, t = 3, 2
	dsec := suite.Scalar().Pick(suite.RandomStream())
	dpub := suite.Point().Mul(dsec, nil)
	vsecs := make([]kyber.Scalar, n)
	vpubs := make([]kyber.Point, n)
	for i := range vsecs {
		vsecs[i] = suite.Scalar().Pick(suite.RandomStream())
		vpubs[i] = suite.Point().Mul(vsecs[i], nil)
	}
	secA, secB := suite.Scalar().Pick(suite.RandomStream()), suite.Scalar().Pick(suite.RandomStream())
	dealerA, _ := vss.NewDealer(suite, dsec, secA, vpubs, t)
	dealerB, _ := vss.NewDealer(suite, dsec, secB, vpubs, t)
	vers := make([]*vss.Verifier, n)
	for i := range vers {
		vers[i], _ = vss.NewVerifier(suite, vsecs[i], dpub, vpubs)
	}
	// the deal of B for verifier 0, relabelled with A's session identifier
	pd, _ := dealerB.PlaintextDeal(0)
	pd.SessionID = dealerA.SessionID()
	e0, _ := dealerB.EncryptedDeal(0)
	r0, err := vers[0].ProcessEncryptedDeal(e0)
	fmt.Printf("verifier 0 approved: %v (err=%v)\n", r0 != nil && r0.StatusApproved, err)
	var resps []*vss.Response
	for i := 1; i < n; i++ {
		e, _ := dealerA.EncryptedDeal(i)
		r, err := vers[i].ProcessEncryptedDeal(e)
		if err != nil {
			panic(err)
		}
		resps = append(resps, r)
	}
	for _, r := range resps {
		cp := *r
		fmt.Printf("verifier 0 takes the response of %d: %v\n", r.Index, vers[0].ProcessResponse(&cp))
	}
	fmt.Println("verifier 0 certified:", vers[0].DealCertified())
	// what verifier 0 holds as "its certified deal" (nil unless it approved and the deal is certified)
	d0 := vers[0].Deal()
	pa, _ := dealerA.PlaintextDeal(0)
	fmt.Println("verifier 0 holds a certified deal:", d0 != nil)
	if d0 != nil {
		fmt.Println("... whose share is the one of the polynomial verifiers 1 and 2 approved:", d0.SecShare.V.Equal(pa.SecShare.V))
	}
}
