//go:build ignore

// Replay for fixes/C04-circl-unmarshal-length.patch: go run this file inside a kyber checkout.
// Unpatched tree: "49 bytes: err = <nil>" then "flag 0x40: panic: runtime error: slice bounds out of range [:96] ...".
// Patched tree:   both print an error.
package main

import (
	"fmt"

	"go.dedis.ch/kyber/v4/pairing/bls12381/circl"
)

func main() {
	suite := circl.NewSuite()
	inf, _ := suite.G1().Point().Null().MarshalBinary()
	fmt.Println("49 bytes: err =", suite.G1().Point().UnmarshalBinary(append(inf, 0)))
	defer func() {
		if r := recover(); r != nil {
			fmt.Println("flag 0x40: panic:", r)
		}
	}()
	fmt.Println("flag 0x40: err =", suite.G1().Point().UnmarshalBinary(append([]byte{0x40}, make([]byte, 47)...)))
}
