//go:build ignore

// Replay for fixes/C11-agreement-phase-decision.patch: go run this file inside a kyber checkout (public API only).
// n=5, t=3, node indices 2,5,8,11,14; dealers 8 and 2 are faulty, nodes 5, 11, 14 honest.
// Unpatched tree: honest nodes print different QUAL / public keys; patched tree: all equal.
package main

import (
	"fmt"
	"sort"

	"go.dedis.ch/kyber/v4"
	"go.dedis.ch/kyber/v4/group/edwards25519"
	dkg "go.dedis.ch/kyber/v4/share/dkg/pedersen"
	"go.dedis.ch/kyber/v4/sign/schnorr"
)

func main() {
	suite := edwards25519.NewBlakeSHA256Ed25519()
	idx := []uint32{2, 5, 8, 11, 14}
	var secs []kyber.Scalar
	var nodes []dkg.Node
	for _, i := range idx {
		s := suite.Scalar().Pick(suite.RandomStream())
		secs = append(secs, s)
		nodes = append(nodes, dkg.Node{Index: i, Public: suite.Point().Mul(s, nil)})
	}
	nonce := dkg.GetNonce()
	var gens []*dkg.DistKeyGenerator
	for k := range idx {
		g, err := dkg.NewDistKeyHandler(&dkg.Config{Suite: suite, Longterm: secs[k], NewNodes: nodes, Threshold: 3, Nonce: nonce, Auth: schnorr.NewScheme(suite)})
		if err != nil {
			panic(err)
		}
		gens = append(gens, g)
	}
	var deals []*dkg.DealBundle
	for k, g := range gens {
		d, err := g.Deals()
		if err != nil {
			panic(err)
		}
		if idx[k] == 8 {
			// faulty dealer 8: a deal for the unknown share index 9, at its sorted position
			d.Deals = append(d.Deals, dkg.Deal{ShareIndex: 9, EncryptedShare: []byte{1, 2, 3}})
			sort.SliceStable(d.Deals, func(i, j int) bool { return d.Deals[i].ShareIndex < d.Deals[j].ShareIndex })
		}
		deals = append(deals, d)
	}
	var resps []*dkg.ResponseBundle
	for _, g := range gens {
		r, err := g.ProcessDeals(deals)
		if err != nil {
			panic(err)
		}
		if r != nil {
			resps = append(resps, r)
		}
	}
	fmt.Println("response bundles broadcast:", len(resps))
	// faulty dealer 2: a justification bundle nobody asked for, with a wrong share
	bad := &dkg.JustificationBundle{DealerIndex: 2, SessionID: nonce,
		Justifications: []dkg.Justification{{ShareIndex: 5, Share: suite.Scalar().One()}}}
	for k, g := range gens {
		if idx[k] == 2 || idx[k] == 8 {
			continue
		}
		res, _, err := g.ProcessResponses(resps)
		phase := "ProcessResponses"
		if err == nil && res == nil {
			res, err = g.ProcessJustifications([]*dkg.JustificationBundle{bad})
			phase = "ProcessJustifications"
		}
		if err != nil {
			fmt.Println("node", idx[k], "error:", err)
			continue
		}
		var q []uint32
		for _, n := range res.QUAL {
			q = append(q, n.Index)
		}
		fmt.Println("honest node", idx[k], "finished in", phase, "QUAL", q, "public key", res.Key.Public())
	}
}
